//! Native replay of a Kani counterexample (appended to a scratch copy of the crate under #[cfg(test)] by
//! /verif/pv_kani.py): a stand-in for the `kani` crate that feeds the harness the concrete values CBMC found, so the
//! harness body — and through it the REAL function — runs natively on the failing input.
#![allow(dead_code)]
use std::cell::RefCell;
thread_local! { static VALS: RefCell<Vec<Vec<u8>>> = RefCell::new(Vec::new()); }
pub fn load(mut v: Vec<Vec<u8>>) { v.reverse(); VALS.with(|c| *c.borrow_mut() = v); }
fn next_bytes() -> Vec<u8> { VALS.with(|c| c.borrow_mut().pop()).unwrap_or_default() }
pub trait Arbitrary: Sized { fn any() -> Self; }
macro_rules! int_any { ($($t:ty),*) => { $(impl Arbitrary for $t { fn any() -> Self {
    let b = next_bytes(); let mut a = [0u8; std::mem::size_of::<$t>()];
    for (k, x) in b.iter().enumerate().take(a.len()) { a[k] = *x; }
    <$t>::from_le_bytes(a) } })* } }
int_any!(u8, u16, u32, u64, u128, usize, i8, i16, i32, i64, i128, isize);
impl Arbitrary for bool { fn any() -> Self { next_bytes().first().map(|b| *b != 0).unwrap_or(false) } }
impl<T: Arbitrary, const N: usize> Arbitrary for [T; N] { fn any() -> Self { std::array::from_fn(|_| T::any()) } }
pub fn any<T: Arbitrary>() -> T { T::any() }
pub fn assert(cond: bool, msg: &'static str) { if !cond { panic!("PV-REPLAY-ASSERTION-FAILED: {}", msg); } }
/// an assumption that does not hold on the replayed values means the values do not belong to this harness
pub fn assume(cond: bool) { if !cond { panic!("PV-REPLAY-ASSUMPTION-VIOLATED"); } }
