use proc_macro::TokenStream;
#[proc_macro_attribute]
pub fn instrument(_args: TokenStream, item: TokenStream) -> TokenStream { item }
