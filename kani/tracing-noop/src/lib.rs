//! No-op stand-in for `tracing` used only for verification builds.
pub use tracing_noop_attr::instrument;
#[derive(Debug, Clone, Copy, PartialEq, Eq, PartialOrd, Ord)]
pub struct Level(u8);
impl Level {
    pub const TRACE: Level = Level(0);
    pub const DEBUG: Level = Level(1);
    pub const INFO: Level = Level(2);
    pub const WARN: Level = Level(3);
    pub const ERROR: Level = Level(4);
}
#[macro_export] macro_rules! trace { ($($t:tt)*) => {{}}; }
#[macro_export] macro_rules! debug { ($($t:tt)*) => {{}}; }
#[macro_export] macro_rules! info { ($($t:tt)*) => {{}}; }
#[macro_export] macro_rules! warn { ($($t:tt)*) => {{}}; }
#[macro_export] macro_rules! error { ($($t:tt)*) => {{}}; }
