//! pvx — overlay tool: splices Verus contracts (kept in /verif) into the *current* text of a
//! source file of sine-fdn/polytune, after applying generic, syntax-directed normalisation
//! rules for constructs the installed Verus dialect rejects.
//!
//! Everything is done as byte-range edits on the original text (located through `syn` spans),
//! so every line that is not touched by a rule stays verbatim.
//!
//! usage: pvx job.json   (see `Job`)
//! exit: 0 ok, 3 lost anchor / rule not applicable (driver maps this to "undecided")

use proc_macro2::Span;
use regex::Regex;
use serde::{Deserialize, Serialize};
use std::collections::BTreeMap;
use syn::spanned::Spanned;
use syn::visit::Visit;

#[derive(Deserialize, Default, Clone)]
struct LoopSpec {
    #[serde(default)]
    ord: Option<usize>,
    /// name by which proof positions refer to this loop: `loop:@name:begin`
    #[serde(default)]
    name: Option<String>,
    /// regex on the whitespace-free loop header; the first not yet claimed loop that matches is used
    #[serde(default, rename = "match")]
    matches: Option<String>,
    /// regex on the loop body text (in addition to `match`): robust against inserted / deleted loops
    #[serde(default)]
    body: Option<String>,
    /// if no loop matches: skip the invariants instead of reporting a lost anchor (used where the
    /// absence of the loop is itself what the postcondition must catch, e.g. a deleted check)
    #[serde(default)]
    optional: bool,
    #[serde(default)]
    iter: Option<String>,
    #[serde(default)]
    inv: String,
    /// optional regex the (normalised) loop header must match, else lost anchor
    #[serde(default)]
    expect: Option<String>,
}

#[derive(Deserialize, Default, Clone)]
struct ProofSpec {
    at: String,
    text: String,
    #[serde(default)]
    optional: bool,
}

#[derive(Deserialize, Default, Clone)]
struct Subst {
    old: String,
    new: String,
    #[serde(default)]
    why: String,
    /// if true, a missing `old` is a lost anchor; by default a substitution whose text is gone is
    /// simply not applied (the code then either is in the dialect as it stands or the run is undecided)
    #[serde(default)]
    required: bool,
    /// `old` is a regular expression (capture groups usable as $1.. in `new`)
    #[serde(default)]
    re: bool,
    /// regex substitutions only: replace every match (default: the regex must match exactly once)
    #[serde(default)]
    all: bool,
}

#[derive(Deserialize, Default, Clone)]
struct SendSpec {
    callee: String,
    phase: String,
    wrapper: String,
    #[serde(default)]
    extra: String,
}

#[derive(Deserialize, Default, Clone)]
struct Lift {
    from: String,
    #[serde(default)]
    self_types: BTreeMap<String, String>,
    /// N22 (outline mode): only the statements AFTER the first top-level statement matching this regex are
    /// moved, into a free function `fn NAME<generics>(params) -> <the method's return type>`; the method keeps
    /// its head and ends in a call `NAME(args)`. params: [name, type, argument expression at the call site].
    #[serde(default)]
    after: Option<String>,
    #[serde(default)]
    params: Vec<(String, String, String)>,
    #[serde(default)]
    generics: String,
    /// statements placed before the outlined range (e.g. `let mut x = x;` — verus! has no `mut` parameters)
    #[serde(default)]
    prologue: String,
}

#[derive(Deserialize, Default, Clone)]
struct ItemSpec {
    /// "fn NAME" | "impl TYPE::NAME" | "impl TRAIT for TYPE::NAME" | "impl TRAIT for TYPE" |
    /// "struct NAME" | "enum NAME" | "const NAME" | "type NAME"
    path: String,
    /// N21: the item is the inherent copy of a trait-impl method (Verus has no `async fn` in traits): before
    /// anything else the body of `lift.from` ("impl TRAIT for TYPE::m") is moved into a new inherent method
    /// named as in `path` (same generics, same signature, `_` parameters named, `Self::X` spelled out) and
    /// the trait method becomes a one-line delegation to it.
    #[serde(default)]
    lift: Option<Lift>,
    #[serde(default)]
    ret: Option<String>,
    #[serde(default)]
    spec: String,
    #[serde(default)]
    loops: Vec<LoopSpec>,
    #[serde(default)]
    proofs: Vec<ProofSpec>,
    #[serde(default)]
    subst: Vec<Subst>,
    #[serde(default)]
    attrs: Vec<String>,
    /// rules switched off for this item
    #[serde(default)]
    no_rules: Vec<String>,
    /// expected number of loops after normalisation (lost anchor if different)
    #[serde(default)]
    n_loops: Option<usize>,
    /// rename the item (used for canaries: a second copy of the function)
    #[serde(default)]
    clone_as: Option<String>,
    /// N3: "all" = rewrite every `^`/`&` of the item into `.bitxor()`/`.bitand()`; default: only
    /// where an operand is syntactically a reference (`&a ^ &b`)
    #[serde(default)]
    n3: Option<String>,
    /// N3: additionally rewrite binary expressions whose text matches one of these regexes
    #[serde(default)]
    n3_match: Vec<String>,
    /// N3b: `A & B` on bools (regexes on the expression text) → `A && B`; operands must be free of
    /// calls / macros / `?` / await / assignment, so evaluation order cannot matter
    #[serde(default)]
    bool_and: Vec<String>,
    /// N6: name of the `&Context` variable: `let &Context { a, b, .. } = ctx;` → `let a = ctx_a(ctx); ...`
    /// and `ctx.a` → `ctx_a(ctx)` (Context has private fields and a `Path` member; it stays opaque and
    /// is read through one-line accessor functions)
    #[serde(default)]
    n6: Option<String>,
    /// N9: constructor expressions of the opaque `Error` enum (`Error::V`, `Error::V(a)`, `Error::V { f: a }`)
    /// → `pv_err_V(a..)`, one-line external_body helpers appended by unit `protocol_ctx`
    #[serde(default)]
    n9: bool,
    /// N13: index expressions (by text) of type `Reg`: `v[r]` → `v[r.0 as usize]`
    #[serde(default)]
    reg_index: Vec<String>,
    /// aliases for local variables of the real code: name -> regex with one capture group, evaluated on
    /// the (normalised) item text. `$name` in spec / invariant / proof text is replaced by the captured
    /// identifier; if the regex does not match, every annotation *line* mentioning `$name` is dropped
    /// (so a renamed local keeps its invariants and a deleted mechanism loses them)
    #[serde(default)]
    alias: BTreeMap<String, String>,
    /// N2: element types for the Vec that collects joined results: [[regex on the joined expression, type]]
    #[serde(default)]
    n2_types: Vec<(String, String)>,
    /// N15: type ascriptions for `let` bindings whose type rustc infers from later uses (contracts
    /// mention them earlier): variable name -> type
    #[serde(default)]
    let_types: BTreeMap<String, String>,
    /// N8: channel-call indirection. Calls `CALLEE(.., "PHASE", ..)` are renamed to the per-phase wrapper
    /// (a one-line external_body function around the real callee, carrying that phase's policy as
    /// `requires`), with `extra` appended to the argument list. When `sends` is non-empty, a *send*
    /// (send_to / scatter / broadcast / unverified_broadcast / broadcast_first_scatter_second) whose phase
    /// is not listed is renamed to `pv_unlisted_CALLEE` (requires false).
    #[serde(default)]
    sends: Vec<SendSpec>,
    /// N3c: operands (by text) of `^` / `&` that are `&bool` / `&u128`: `a ^ r` → `a ^ (*r)` — std's
    /// `impl BitXor<&bool> for bool` forwards to the by-value impl; Verus' translator panics on the
    /// reference-typed operator form
    #[serde(default)]
    deref_operands: Vec<String>,
    /// N17: `A == B` / `A != B` (regexes on the expression text) → `pv_eq(&(A), &(B))` / `!pv_eq(..)`:
    /// derived PartialEq on Option / tuple of plain data has no vstd specification
    #[serde(default)]
    eq_sites: Vec<String>,
    /// N18: method calls on opaque external iterators → specified free functions:
    /// [[receiver regex, method, function]]; `R.m(args)` → `f(&mut R, args)`, and for an indexed receiver
    /// `V[k].m()` → `f_at(&mut V, k)`
    #[serde(default)]
    method_to_fn: Vec<(String, String, String)>,
    /// same, but the receiver is passed by value: `R.m(args)` → `f(R, args)`
    #[serde(default)]
    method_to_fn_val: Vec<(String, String, String)>,
    /// N4: names for tuple-pattern parameters, by parameter index ("2" -> "t1")
    #[serde(default)]
    arg_names: BTreeMap<String, String>,
}

#[derive(Deserialize)]
struct Job {
    src: String,
    out: String,
    report: String,
    items: Vec<ItemSpec>,
    #[serde(default)]
    prepend: String,
    /// annotation lines (by key) to leave out — used by the driver's retry loop when an inserted line
    /// does not type-check against the current code
    #[serde(default)]
    drop_keys: Vec<String>,
    /// type-directed rule applications (by key) to leave out
    #[serde(default)]
    skip_sites: Vec<String>,
    #[serde(default)]
    append: String,
}

#[derive(Serialize, Default)]
struct RuleApp {
    rule: String,
    item: String,
    line: usize,
    old: String,
    new: String,
}

#[derive(Serialize, Default)]
struct ItemReport {
    path: String,
    orig_start_line: usize,
    orig_end_line: usize,
    orig_lines: usize,
    loops: usize,
    loop_headers: Vec<String>,
    inserted_lines: usize,
}

#[derive(Serialize, Default)]
struct Report {
    ok: bool,
    error: String,
    rules: Vec<RuleApp>,
    items: Vec<ItemReport>,
}

struct Edit {
    start: usize,
    end: usize,
    text: String,
    rule: &'static str,
}

fn br(s: Span) -> (usize, usize) {
    let r = s.byte_range();
    (r.start, r.end)
}

fn line_of(text: &str, pos: usize) -> usize {
    text[..pos.min(text.len())].bytes().filter(|b| *b == b'\n').count() + 1
}

fn nows(s: &str) -> String {
    s.chars().filter(|c| !c.is_whitespace()).collect()
}

// ---------------------------------------------------------------- item lookup

enum Found<'a> {
    Fn(&'a syn::ItemFn),
    Method(&'a syn::ItemImpl, &'a syn::ImplItemFn),
    Impl(&'a syn::ItemImpl),
    Other(&'a syn::Item),
}

fn impl_matches(imp: &syn::ItemImpl, want: &str) -> bool {
    // want: "TYPE" or "TRAIT for TYPE" (whitespace-insensitive); TYPE compared on the last
    // path segment ident when `want` has no generics, else on the full token string.
    let self_s = nows(&quote::quote!(#(imp.self_ty)).to_string());
    let self_ty = &imp.self_ty;
    let self_full = nows(&quote::quote!(#self_ty).to_string());
    let _ = self_s;
    let (wt, wty) = match want.split_once(" for ") {
        Some((t, ty)) => (Some(nows(t)), nows(ty)),
        None => (None, nows(want)),
    };
    let ty_ok = self_full == wty || {
        // compare on last ident (ignoring generics / references)
        let base = self_full.trim_start_matches('&');
        let base = base.split('<').next().unwrap_or(base);
        let last = base.rsplit("::").next().unwrap_or(base);
        last == wty
    };
    if !ty_ok {
        return false;
    }
    match (&imp.trait_, wt) {
        (None, None) => true,
        (Some((_, p, _)), Some(wt)) => {
            let ps = nows(&quote::quote!(#p).to_string());
            ps == wt || ps.rsplit("::").next().map(|l| l == wt).unwrap_or(false)
        }
        _ => false,
    }
}

fn find_item<'a>(file: &'a syn::File, path: &str) -> Option<Found<'a>> {
    let path = path.trim();
    if let Some(name) = path.strip_prefix("fn ") {
        for it in &file.items {
            if let syn::Item::Fn(f) = it {
                if f.sig.ident == name.trim() {
                    return Some(Found::Fn(f));
                }
            }
        }
        return None;
    }
    if let Some(rest) = path.strip_prefix("impl ") {
        let (want, meth) = match rest.rsplit_once("::") {
            // careful: "BitXor<Delta> for Mac::bitxor" vs "BitXor for Mac"
            Some((w, m)) if !m.contains(' ') && !m.contains('>') && !w.trim().is_empty() && w.contains(|c: char| c.is_alphanumeric()) && (w.contains(" for ") || !w.contains("::") || true) => {
                (w.to_string(), Some(m.trim().to_string()))
            }
            _ => (rest.to_string(), None),
        };
        // "impl TYPE" without method: rest has no "::" at top level → handled above by `_`
        for it in &file.items {
            if let syn::Item::Impl(imp) = it {
                if let Some(m) = &meth {
                    if impl_matches(imp, &want) {
                        for ii in &imp.items {
                            if let syn::ImplItem::Fn(f) = ii {
                                if f.sig.ident == m {
                                    return Some(Found::Method(imp, f));
                                }
                            }
                        }
                    }
                } else if impl_matches(imp, &want) {
                    return Some(Found::Impl(imp));
                }
            }
        }
        // maybe the whole `rest` was an impl without method but containing "::"
        if meth.is_some() {
            for it in &file.items {
                if let syn::Item::Impl(imp) = it {
                    if impl_matches(imp, rest) {
                        return Some(Found::Impl(imp));
                    }
                }
            }
        }
        return None;
    }
    for (kw, _) in [("struct ", 0), ("enum ", 1), ("const ", 2), ("type ", 3), ("static ", 4)] {
        if let Some(name) = path.strip_prefix(kw) {
            for it in &file.items {
                let id = match it {
                    syn::Item::Struct(s) if kw == "struct " => Some(&s.ident),
                    syn::Item::Enum(s) if kw == "enum " => Some(&s.ident),
                    syn::Item::Const(s) if kw == "const " => Some(&s.ident),
                    syn::Item::Type(s) if kw == "type " => Some(&s.ident),
                    syn::Item::Static(s) if kw == "static " => Some(&s.ident),
                    _ => None,
                };
                if let Some(id) = id {
                    if id == name.trim() {
                        return Some(Found::Other(it));
                    }
                }
            }
            return None;
        }
    }
    None
}

struct FnParts<'a> {
    attrs: &'a [syn::Attribute],
    sig: &'a syn::Signature,
    block: &'a syn::Block,
    whole: (usize, usize),
}

fn fn_parts<'a>(f: &'a Found<'a>) -> Option<FnParts<'a>> {
    match f {
        Found::Fn(f) => Some(FnParts { attrs: &f.attrs, sig: &f.sig, block: &f.block, whole: br(f.span()) }),
        Found::Method(_, m) => Some(FnParts { attrs: &m.attrs, sig: &m.sig, block: &m.block, whole: br(m.span()) }),
        _ => None,
    }
}

// ---------------------------------------------------------------- loop collection

#[derive(Clone)]
struct LoopInfo {
    body_text: String,
    kind: &'static str, // for | while | loop
    header: String,     // normalised text up to body
    expr: Option<(usize, usize)>,
    body_open: usize,  // byte pos of '{'
    body_close: usize, // byte pos of '}'
}

struct LoopCollector<'t> {
    text: &'t str,
    loops: Vec<LoopInfo>,
}

impl<'ast, 't> Visit<'ast> for LoopCollector<'t> {
    fn visit_expr_for_loop(&mut self, e: &'ast syn::ExprForLoop) {
        let (s, _) = br(e.for_token.span());
        let (bo, bc) = br(e.body.span());
        self.loops.push(LoopInfo {
            body_text: self.text[bo..bc].to_string(),
            kind: "for",
            header: nows(&self.text[s..bo]),
            expr: Some(br(e.expr.span())),
            body_open: bo,
            body_close: bc - 1,
        });
        syn::visit::visit_expr_for_loop(self, e);
    }
    fn visit_expr_while(&mut self, e: &'ast syn::ExprWhile) {
        let (s, _) = br(e.while_token.span());
        let (bo, bc) = br(e.body.span());
        self.loops.push(LoopInfo { body_text: self.text[bo..bc].to_string(), kind: "while", header: nows(&self.text[s..bo]), expr: None, body_open: bo, body_close: bc - 1 });
        syn::visit::visit_expr_while(self, e);
    }
    fn visit_expr_loop(&mut self, e: &'ast syn::ExprLoop) {
        let (s, _) = br(e.loop_token.span());
        let (bo, bc) = br(e.body.span());
        self.loops.push(LoopInfo { body_text: self.text[bo..bc].to_string(), kind: "loop", header: nows(&self.text[s..bo]), expr: None, body_open: bo, body_close: bc - 1 });
        syn::visit::visit_expr_loop(self, e);
    }
}

// ---------------------------------------------------------------- normalisation rules

struct Normaliser<'t> {
    method_to_fn_val: Vec<(Regex, String, String)>,
    skip_sites: &'t [String],
    method_to_fn: Vec<(Regex, String, String)>,
    eq_sites: Vec<Regex>,
    deref_operands: Vec<String>,
    sends: Vec<SendSpec>,
    n2_types: Vec<(Regex, String)>,
    let_types: BTreeMap<String, String>,
    n9: bool,
    n6: Option<String>,
    reg_index: Vec<String>,
    bool_and: Vec<Regex>,
    n3_all: bool,
    n3_match: Vec<Regex>,
    text: &'t str,
    edits: Vec<Edit>,
    on: &'t dyn Fn(&str) -> bool,
    eager_futs: Vec<String>,
}

fn method_chain_base<'a>(e: &'a syn::Expr) -> &'a syn::Expr {
    match e {
        syn::Expr::Paren(p) => method_chain_base(&p.expr),
        _ => e,
    }
}

/// closure `|x| COND` or `|&x| COND` (no block with statements): returns (param name, is_ref_pat, cond expr)
fn simple_closure(c: &syn::ExprClosure) -> Option<(String, bool, &syn::Expr)> {
    if c.inputs.len() != 1 || c.asyncness.is_some() {
        return None;
    }
    match &c.inputs[0] {
        syn::Pat::Ident(pi) if pi.by_ref.is_none() && pi.subpat.is_none() => Some((pi.ident.to_string(), false, &c.body)),
        syn::Pat::Reference(r) => match &*r.pat {
            syn::Pat::Ident(pi) => Some((pi.ident.to_string(), true, &c.body)),
            _ => None,
        },
        _ => None,
    }
}

fn has_return(e: &syn::Expr) -> bool {
    struct R(bool);
    impl<'a> Visit<'a> for R {
        fn visit_expr_return(&mut self, _: &'a syn::ExprReturn) {
            self.0 = true;
        }
        fn visit_expr_closure(&mut self, _: &'a syn::ExprClosure) {}
    }
    let mut r = R(false);
    r.visit_expr(e);
    r.0
}

fn has_side_effect_syntax(e: &syn::Expr) -> bool {
    struct R(bool);
    impl<'a> Visit<'a> for R {
        fn visit_expr_try(&mut self, _: &'a syn::ExprTry) {
            self.0 = true;
        }
        fn visit_expr_await(&mut self, _: &'a syn::ExprAwait) {
            self.0 = true;
        }
        fn visit_expr_assign(&mut self, _: &'a syn::ExprAssign) {
            self.0 = true;
        }
        fn visit_expr_macro(&mut self, _: &'a syn::ExprMacro) {
            self.0 = true;
        }
    }
    let mut r = R(false);
    r.visit_expr(e);
    r.0
}

impl<'t> Normaliser<'t> {
    fn t(&self, s: Span) -> &'t str {
        let (a, b) = br(s);
        &self.text[a..b]
    }
    /// key of a type-directed rewrite site: rule + hash of the original expression text; None = skipped
    fn site(&self, rule: &str, start: usize, end: usize) -> Option<String> {
        use std::hash::{Hash, Hasher};
        let mut h = std::collections::hash_map::DefaultHasher::new();
        nows(&self.text[start..end]).hash(&mut h);
        let key = format!("{}:{:08x}", rule, (h.finish() & 0xffff_ffff) as u32);
        if self.skip_sites.iter().any(|k| *k == key) {
            None
        } else {
            Some(format!("/*pv-rule:{}*/", key))
        }
    }
    fn push(&mut self, start: usize, end: usize, text: String, rule: &'static str) {
        self.edits.push(Edit { start, end, text, rule });
    }

    /// N1: `for P in BASE.filter(|x| COND(*x)) BODY`  →  `for P in BASE { if COND(P) BODY }`
    fn try_n1(&mut self, e: &syn::ExprForLoop) -> bool {
        if !(self.on)("N1") {
            return false;
        }
        let syn::Expr::MethodCall(mc) = method_chain_base(&e.expr) else { return false };
        if mc.method != "filter" || mc.args.len() != 1 {
            return false;
        }
        let syn::Expr::Closure(cl) = &mc.args[0] else { return false };
        let Some((param, is_ref, cond)) = simple_closure(cl) else { return false };
        let syn::Pat::Ident(lp) = &*e.pat else { return false };
        if has_side_effect_syntax(cond) {
            return false;
        }
        let loopvar = lp.ident.to_string();
        let cond_txt = self.t(cond.span());
        let new_cond = if is_ref {
            Regex::new(&format!(r"\b{}\b", regex::escape(&param))).unwrap().replace_all(cond_txt, loopvar.as_str()).to_string()
        } else {
            // every use must be `*x`
            let re_all = Regex::new(&format!(r"\b{}\b", regex::escape(&param))).unwrap();
            let re_deref = Regex::new(&format!(r"\*\s*{}\b", regex::escape(&param))).unwrap();
            if re_all.find_iter(cond_txt).count() != re_deref.find_iter(cond_txt).count() {
                return false;
            }
            re_deref.replace_all(cond_txt, loopvar.as_str()).to_string()
        };
        let base = method_chain_base(&mc.receiver);
        let base_txt = self.t(base.span()).to_string();
        let (es, ee) = br(e.expr.span());
        let (bs, be) = br(e.body.span());
        self.push(es, ee, base_txt, "N1");
        self.push(bs + 1, bs + 1, format!(" if {} {{", new_cond), "N1");
        self.push(be - 1, be - 1, "} ".to_string(), "N1");
        true
    }

    /// N10: `for (i, x) in S.iter().enumerate() BODY` → `for i in 0..S.len() { let x = &S[i]; BODY }`
    fn try_n10(&mut self, e: &syn::ExprForLoop) -> bool {
        if !(self.on)("N10") {
            return false;
        }
        // `S.iter().enumerate()` or `S.iter().enumerate().skip(K)` / `.take(K)` with K a literal or a plain name:
        // the index range becomes `K..S.len()` resp. `0..min(S.len(), K)`
        let mut start_txt = "0".to_string();
        let mut take_txt: Option<String> = None;
        let mut top = method_chain_base(&e.expr);
        if let syn::Expr::MethodCall(mc) = top {
            if (mc.method == "skip" || mc.method == "take") && mc.args.len() == 1 {
                let a = &mc.args[0];
                let simple = matches!(a, syn::Expr::Lit(_)) || matches!(a, syn::Expr::Path(p) if p.path.segments.len() == 1);
                if !simple {
                    return false;
                }
                if mc.method == "skip" { start_txt = self.t(a.span()).to_string(); } else { take_txt = Some(self.t(a.span()).to_string()); }
                top = method_chain_base(&mc.receiver);
            }
        }
        let syn::Expr::MethodCall(en) = top else { return false };
        if en.method != "enumerate" || !en.args.is_empty() {
            return false;
        }
        let syn::Expr::MethodCall(it) = method_chain_base(&en.receiver) else { return false };
        if it.method != "iter" || !it.args.is_empty() {
            return false;
        }
        let seq = method_chain_base(&it.receiver);
        if has_side_effect_syntax(seq) || matches!(seq, syn::Expr::Call(_) | syn::Expr::MethodCall(_)) {
            return false;
        }
        let syn::Pat::Tuple(tp) = &*e.pat else { return false };
        if tp.elems.len() != 2 {
            return false;
        }
        let syn::Pat::Ident(ip) = &tp.elems[0] else { return false };
        let idx = ip.ident.to_string();
        let elem_pat = self.t(tp.elems[1].span()).to_string();
        let seq_txt = self.t(seq.span()).to_string();
        let (ps, pe) = br(e.pat.span());
        let (es, ee) = br(e.expr.span());
        let (bs, _) = br(e.body.span());
        self.push(ps, pe, idx.clone(), "N10");
        match &take_txt {
            Some(k) => self.push(es, ee, format!("0..pv_min_usize({}.len(), {})", seq_txt, k), "N10"),
            None => self.push(es, ee, format!("{}..{}.len()", start_txt, seq_txt), "N10"),
        }
        if elem_pat.trim() != "_" {
            self.push(bs + 1, bs + 1, format!(" let {} = &{}[{}];", elem_pat, seq_txt, idx), "N10");
        }
        true
    }

    /// N7: `for &x in &S BODY` / `for &x in S.iter() BODY` → `for __pv_r in S.iter() { let x = *__pv_r; BODY }`
    fn try_n7(&mut self, e: &syn::ExprForLoop) -> bool {
        if !(self.on)("N7") {
            return false;
        }
        // `for x in S.iter().copied() BODY` → `for __pv_ref_x in S.iter() { let x = *__pv_ref_x; BODY }`
        if let (syn::Pat::Ident(ip), syn::Expr::MethodCall(cp)) = (&*e.pat, method_chain_base(&e.expr)) {
            if cp.method == "copied" && cp.args.is_empty() {
                if let syn::Expr::MethodCall(it) = method_chain_base(&cp.receiver) {
                    if it.method == "iter" && it.args.is_empty() {
                        let x = ip.ident.to_string();
                        let tmp = format!("__pv_ref_{}", x);
                        let (ps, pe) = br(e.pat.span());
                        let (es, ee) = br(e.expr.span());
                        let (bs, _) = br(e.body.span());
                        let seq = self.t(cp.receiver.span()).to_string();
                        self.push(ps, pe, tmp.clone(), "N7");
                        self.push(es, ee, seq, "N7");
                        self.push(bs + 1, bs + 1, format!(" let {} = *{};", x, tmp), "N7");
                        return true;
                    }
                }
            }
        }
        let syn::Pat::Reference(rp) = &*e.pat else { return false };
        let syn::Pat::Ident(ip) = &*rp.pat else { return false };
        let x = ip.ident.to_string();
        let seq_txt = match &*e.expr {
            syn::Expr::Reference(r) if r.mutability.is_none() => format!("{}.iter()", self.t(r.expr.span())),
            syn::Expr::MethodCall(m) if m.method == "iter" && m.args.is_empty() => self.t(e.expr.span()).to_string(),
            _ => return false,
        };
        let (ps, pe) = br(e.pat.span());
        let (es, ee) = br(e.expr.span());
        let (bs, _) = br(e.body.span());
        let tmp = format!("__pv_ref_{}", x);
        self.push(ps, pe, tmp.clone(), "N7");
        self.push(es, ee, seq_txt, "N7");
        self.push(bs + 1, bs + 1, format!(" let {} = *{};", x, tmp), "N7");
        true
    }

    /// N5: `if let P = E && C { S }` (no else) → `if let P = E { if C { S } }`
    fn try_n5(&mut self, e: &syn::ExprIf) -> bool {
        if !(self.on)("N5") || e.else_branch.is_some() {
            return false;
        }
        // flatten the && chain
        fn flatten<'a>(e: &'a syn::Expr, out: &mut Vec<&'a syn::Expr>) {
            if let syn::Expr::Binary(b) = e {
                if matches!(b.op, syn::BinOp::And(_)) {
                    flatten(&b.left, out);
                    flatten(&b.right, out);
                    return;
                }
            }
            out.push(e);
        }
        let mut parts = vec![];
        flatten(&e.cond, &mut parts);
        if parts.len() < 2 || !parts.iter().any(|p| matches!(p, syn::Expr::Let(_))) {
            return false;
        }
        let (cs, ce) = br(e.cond.span());
        let mut hdr = String::new();
        for (k, p) in parts.iter().enumerate() {
            if k > 0 {
                hdr.push_str(" { if ");
            }
            hdr.push_str(self.t(p.span()));
        }
        let (_, be) = br(e.then_branch.span());
        self.push(cs, ce, hdr, "N5");
        self.push(be, be, " }".repeat(parts.len() - 1), "N5");
        true
    }

    /// N2: try_join_all(ITER.map(CLOSURE)) [.await?]  → sequential loop collecting into a Vec
    fn try_n2_call(&mut self, outer: &syn::Expr, call: &syn::ExprCall, awaited_try: bool) -> bool {
        if !(self.on)("N2") {
            return false;
        }
        let syn::Expr::Path(p) = &*call.func else { return false };
        if p.path.segments.last().map(|s| s.ident != "try_join_all").unwrap_or(true) || call.args.len() != 1 {
            return false;
        }
        let syn::Expr::MethodCall(map) = method_chain_base(&call.args[0]) else { return false };
        if map.method != "map" || map.args.len() != 1 {
            return false;
        }
        let syn::Expr::Closure(cl) = &map.args[0] else { return false };
        if cl.inputs.len() != 1 || has_return(&cl.body) {
            return false;
        }
        let pat = self.t(cl.inputs[0].span()).to_string();
        let body = self.t(cl.body.span()).to_string();
        let iter = self.t(map.receiver.span()).to_string();
        let is_async = cl.asyncness.is_some();
        // async closure body evaluates to the Result; a plain closure returns a future
        let item = if is_async { format!("{}", body) } else { format!("({}).await", body) };
        let (s, e) = br(outer.span());
        let ty = self.n2_types.iter().find(|(r, _)| r.is_match(&self.text[s..e])).map(|(_, t)| format!(": Vec<{}>", t)).unwrap_or_default();
        let new = format!(
            "{{ let mut __pv_join{} = Vec::new(); for {} in {} {{ let __pv_r = {}; __pv_join.push(__pv_r?); }} __pv_join }}",
            ty, pat, iter, item
        );
        let _ = awaited_try;
        self.push(s, e, new, "N2");
        true
    }
}

impl<'t> Normaliser<'t> {
    /// N3: `A ^ B` → `(A).bitxor(B)`, `A & B` → `(A).bitand(B)` (what rustc desugars the operator to)
    fn try_n3(&mut self, b: &syn::ExprBinary) -> bool {
        if !(self.on)("N3") {
            return false;
        }
        let m = match b.op {
            syn::BinOp::BitXor(_) => "bitxor",
            syn::BinOp::BitAnd(_) => "bitand",
            _ => return false,
        };
        let is_ref = |e: &syn::Expr| matches!(method_chain_base(e), syn::Expr::Reference(_));
        let txt = self.t(b.span());
        if !self.deref_operands.is_empty() && (self.on)("N3c") {
            let mut any = false;
            for side in [&b.left, &b.right] {
                let t = nows(self.t(side.span()));
                if self.deref_operands.iter().any(|d| nows(d) == t) {
                    let (s, e) = br(side.span());
                    let old = self.text[s..e].to_string();
                    if let Some(mk) = self.site("N3c", s, e) {
                        self.push(s, e, format!("(*{}){}", old, mk), "N3c");
                        any = true;
                    }
                }
            }
            if any {
                return true;
            }
        }
        if m == "bitand" && self.bool_and.iter().any(|r| r.is_match(txt)) {
            fn impure(e: &syn::Expr) -> bool {
                struct R(bool);
                impl<'a> Visit<'a> for R {
                    fn visit_expr_call(&mut self, _: &'a syn::ExprCall) { self.0 = true; }
                    fn visit_expr_method_call(&mut self, _: &'a syn::ExprMethodCall) { self.0 = true; }
                }
                let mut r = R(false);
                r.visit_expr(e);
                r.0 || has_side_effect_syntax(e)
            }
            if impure(&b.left) || impure(&b.right) {
                return false;
            }
            let l = self.t(b.left.span()).to_string();
            let r = self.t(b.right.span()).to_string();
            let (s, e) = br(b.span());
            if let Some(mk) = self.site("N3b", s, e) {
                self.push(s, e, format!("(({}) && ({})){}", l, r, mk), "N3b");
                return true;
            }
            return false;
        }
        let applies = self.n3_all || is_ref(&b.left) || is_ref(&b.right) || self.n3_match.iter().any(|r| r.is_match(txt));
        if !applies {
            return false;
        }
        let l = self.t(b.left.span()).to_string();
        let r = self.t(b.right.span()).to_string();
        let (s, e) = br(b.span());
        if let Some(mk) = self.site("N3", s, e) {
            self.push(s, e, format!("({}).{}({}){}", l, m, r, mk), "N3");
            return true;
        }
        false
    }
}

impl<'t> Normaliser<'t> {
    /// N20: `Some(&x)` = E  →  `Some(x)` = (E).copied()   (Verus has no reference patterns)
    fn try_n20(&mut self, pat: &syn::Pat, init: &syn::Expr) -> bool {
        if !(self.on)("N20") {
            return false;
        }
        let syn::Pat::TupleStruct(ts) = pat else { return false };
        if !ts.path.is_ident("Some") || ts.elems.len() != 1 {
            return false;
        }
        let syn::Pat::Reference(rp) = &ts.elems[0] else { return false };
        if rp.mutability.is_some() || !matches!(&*rp.pat, syn::Pat::Ident(_)) {
            return false;
        }
        let (rs, _) = br(rp.and_token.span());
        let (is, ie) = br(init.span());
        let Some(mk) = self.site("N20", is, ie) else { return false };
        self.push(rs, rs + 1, String::new(), "N20");
        let old = self.text[is..ie].to_string();
        self.push(is, ie, format!("({}).copied(){}", old, mk), "N20");
        true
    }

    /// N14: in a `for` body, `if C { T; continue; } REST` → `if C { T } else { REST }`
    /// (Verus' for-loops do not support `continue`)
    fn try_n14(&mut self, body: &syn::Block) -> bool {
        if !(self.on)("N14") {
            return false;
        }
        for (k, st) in body.stmts.iter().enumerate() {
            let syn::Stmt::Expr(syn::Expr::If(ei), _) = st else { continue };
            if ei.else_branch.is_some() {
                continue;
            }
            let Some(last) = ei.then_branch.stmts.last() else { continue };
            let is_cont = matches!(last, syn::Stmt::Expr(syn::Expr::Continue(c), _) if c.label.is_none());
            if !is_cont {
                continue;
            }
            // remove `continue;`
            let (cs, ce) = br(last.span());
            self.push(cs, ce, String::new(), "N14");
            // wrap the rest of the body into else { .. }
            let (_, ie) = br(ei.span());
            let (_, be) = br(body.span());
            if k + 1 < body.stmts.len() {
                self.push(ie, ie, " else {".to_string(), "N14");
                self.push(be - 1, be - 1, "} ".to_string(), "N14");
            }
            return true;
        }
        // tail position: the last statement's branches also end the loop body
        if let Some(syn::Stmt::Expr(syn::Expr::If(ei), _)) = body.stmts.last() {
            if self.try_n14(&ei.then_branch) {
                return true;
            }
            let mut cur = ei;
            while let Some((_, eb)) = &cur.else_branch {
                match &**eb {
                    syn::Expr::Block(b) => return self.try_n14(&b.block),
                    syn::Expr::If(e2) => {
                        if self.try_n14(&e2.then_branch) {
                            return true;
                        }
                        cur = e2;
                    }
                    _ => break,
                }
            }
        }
        false
    }
}

impl<'ast, 't> Visit<'ast> for Normaliser<'t> {
    fn visit_expr_macro(&mut self, m: &'ast syn::ExprMacro) {
        // N12: `vec![E; N]` → `pv_vec_repeat(E, N)` (vstd cannot specify Clone of tuples, so the
        // std macro has no usable postcondition for Vec<(Mac, Key)>; the helper's body is `vec![x; n]`)
        if (self.on)("N12") && m.mac.path.is_ident("vec") {
            let toks: Vec<proc_macro2::TokenTree> = m.mac.tokens.clone().into_iter().collect();
            let semi = toks.iter().position(|t| matches!(t, proc_macro2::TokenTree::Punct(p) if p.as_char() == ';'));
            if let Some(k) = semi {
                if k > 0 && k + 1 < toks.len() {
                    let (a0, _) = br(toks[0].span());
                    let (_, a1) = br(toks[k - 1].span());
                    let (b0, _) = br(toks[k + 1].span());
                    let (_, b1) = br(toks[toks.len() - 1].span());
                    let e = self.text[a0..a1].to_string();
                    let n = self.text[b0..b1].to_string();
                    let (s, en) = br(m.span());
                    self.push(s, en, format!("pv_vec_repeat({}, {})", e, n), "N12");
                    return;
                }
            }
        }
        syn::visit::visit_expr_macro(self, m);
    }
    fn visit_expr_binary(&mut self, b: &'ast syn::ExprBinary) {
        // N19: `A[i] op= E` → `A[i] = A[i] op (E)` (Verus has no compound assignment through an index)
        if (self.on)("N19") {
            let op = match b.op {
                syn::BinOp::BitXorAssign(_) => Some("^"),
                syn::BinOp::BitAndAssign(_) => Some("&"),
                syn::BinOp::BitOrAssign(_) => Some("|"),
                syn::BinOp::ShlAssign(_) => Some("<<"),
                syn::BinOp::ShrAssign(_) => Some(">>"),
                syn::BinOp::AddAssign(_) => Some("+"),
                syn::BinOp::SubAssign(_) => Some("-"),
                _ => None,
            };
            if let (Some(op), syn::Expr::Index(_)) = (op, &*b.left) {
                if !has_side_effect_syntax(&b.left) {
                    let l = self.t(b.left.span()).to_string();
                    let r = self.t(b.right.span()).to_string();
                    let (s, e) = br(b.span());
                    self.push(s, e, format!("{} = {} {} ({})", l, l, op, r), "N19");
                    return;
                }
            }
        }
        if !self.eq_sites.is_empty() && (self.on)("N17") {
            let neg = match b.op { syn::BinOp::Eq(_) => Some(false), syn::BinOp::Ne(_) => Some(true), _ => None };
            if let Some(neg) = neg {
                let txt = self.t(b.span());
                if self.eq_sites.iter().any(|r| r.is_match(txt)) {
                    let l = self.t(b.left.span()).to_string();
                    let r = self.t(b.right.span()).to_string();
                    let (s, e) = br(b.span());
                    if let Some(mk) = self.site("N17", s, e) {
                        self.push(s, e, format!("{}pv_eq(&({}), &({})){}", if neg { "!" } else { "" }, l, r, mk), "N17");
                        return;
                    }
                }
            }
        }
        self.try_n3(b);
        syn::visit::visit_expr_binary(self, b);
    }
    fn visit_expr_for_loop(&mut self, e: &'ast syn::ExprForLoop) {
        let done = self.try_n1(e) || self.try_n10(e) || self.try_n7(e);
        if !done {
            self.try_n14(&e.body);
        }
        syn::visit::visit_expr_for_loop(self, e);
    }
    fn visit_expr_if(&mut self, e: &'ast syn::ExprIf) {
        self.try_n5(e);
        syn::visit::visit_expr_if(self, e);
    }
    fn visit_expr_struct(&mut self, st: &'ast syn::ExprStruct) {
        if self.n9 && (self.on)("N9") && st.path.segments.len() == 2 && st.path.segments[0].ident == "Error" && st.rest.is_none() {
            let v = st.path.segments[1].ident.to_string();
            let args: Vec<String> = st.fields.iter().map(|f| self.t(f.expr.span()).to_string()).collect();
            let (s, e) = br(st.span());
            self.push(s, e, format!("pv_err_{}({})", v, args.join(", ")), "N9");
            return;
        }
        syn::visit::visit_expr_struct(self, st);
    }
    fn visit_expr_call(&mut self, c: &'ast syn::ExprCall) {
        // N8
        if !self.sends.is_empty() && (self.on)("N8") {
            if let syn::Expr::Path(p) = &*c.func {
                if let Some(last) = p.path.segments.last() {
                    let callee = last.ident.to_string();
                    const SENDS: [&str; 5] = ["send_to", "scatter", "broadcast", "unverified_broadcast", "broadcast_first_scatter_second"];
                    const RECVS: [&str; 2] = ["recv_from", "recv_vec_from"];
                    if p.path.segments.len() == 1 && (SENDS.contains(&callee.as_str()) || RECVS.contains(&callee.as_str())) {
                        // phase = the string literal argument
                        let phase = c.args.iter().find_map(|a| match a {
                            syn::Expr::Lit(l) => match &l.lit { syn::Lit::Str(s) => Some(s.value()), _ => None },
                            _ => None,
                        });
                        let hit = phase.as_ref().and_then(|ph| self.sends.iter().find(|s| s.callee == callee && &s.phase == ph)).cloned();
                        let (fs, fe) = br(last.ident.span());
                        if let Some(h) = hit {
                            if h.wrapper == callee && h.extra.is_empty() {
                                // listed without a policy: the call stays as it is
                                syn::visit::visit_expr_call(self, c);
                                return;
                            }
                            self.push(fs, fe, h.wrapper.clone(), "N8");
                            if !h.extra.is_empty() {
                                let (_, ce) = br(c.span());
                                // before the closing parenthesis
                                let had_trailing = self.text[..ce - 1].trim_end().ends_with(',');
                                self.push(ce - 1, ce - 1, format!("{}{}", if had_trailing { " " } else { ", " }, h.extra), "N8");
                            }
                        } else if SENDS.contains(&callee.as_str()) {
                            self.push(fs, fe, format!("pv_unlisted_{}", callee), "N8");
                        }
                        // fall through to visit the arguments (names no longer match after the rename)
                    }
                }
            }
        }
        if self.n9 && (self.on)("N9") {
            if let syn::Expr::Path(p) = &*c.func {
                if p.qself.is_none() && p.path.segments.len() == 2 && p.path.segments[0].ident == "Error" {
                    let v = p.path.segments[1].ident.to_string();
                    let args: Vec<String> = c.args.iter().map(|a| self.t(a.span()).to_string()).collect();
                    let (s, e) = br(c.span());
                    self.push(s, e, format!("pv_err_{}({})", v, args.join(", ")), "N9");
                    return;
                }
            }
        }
        syn::visit::visit_expr_call(self, c);
    }
    fn visit_expr_path(&mut self, p: &'ast syn::ExprPath) {
        if self.n9 && (self.on)("N9") && p.qself.is_none() && p.path.segments.len() == 2 && p.path.segments[0].ident == "Error" {
            let v = p.path.segments[1].ident.to_string();
            // unit variants only (tuple variants used as functions, e.g. `.map_err(Error::X)`, are left alone)
            if ["PartyDoesNotExist", "MissingOutputParties", "EmptyMsg"].contains(&v.as_str()) {
                let (s, e) = br(p.span());
                self.push(s, e, format!("pv_err_{}()", v), "N9");
                return;
            }
        }
        syn::visit::visit_expr_path(self, p);
    }
    fn visit_expr_method_call(&mut self, mc: &'ast syn::ExprMethodCall) {
        if !self.method_to_fn_val.is_empty() && (self.on)("N18") {
            let recv = self.t(mc.receiver.span());
            let hit = self.method_to_fn_val.iter().find(|(r, m, _)| mc.method == m.as_str() && r.is_match(recv)).cloned();
            if let Some((_, _, f)) = hit {
                let mut a = vec![recv.to_string()];
                a.extend(mc.args.iter().map(|x| self.t(x.span()).to_string()));
                let (s, e) = br(mc.span());
                if let Some(mk) = self.site("N18", s, e) {
                    self.push(s, e, format!("{}({}){}", f, a.join(", "), mk), "N18");
                    return;
                }
            }
        }
        if !self.method_to_fn.is_empty() && (self.on)("N18") {
            let recv = self.t(mc.receiver.span());
            let hit = self.method_to_fn.iter().find(|(r, m, _)| mc.method == m.as_str() && r.is_match(recv)).cloned();
            if let Some((_, _, f)) = hit {
                let args: Vec<String> = mc.args.iter().map(|a| self.t(a.span()).to_string()).collect();
                let (s, e) = br(mc.span());
                let new = if let syn::Expr::Index(ix) = &*mc.receiver {
                    let v = self.t(ix.expr.span());
                    let k = self.t(ix.index.span());
                    let mut a = vec![format!("&mut {}", v), k.to_string()];
                    a.extend(args);
                    format!("{}_at({})", f, a.join(", "))
                } else {
                    let mut a = vec![format!("&mut {}", recv)];
                    a.extend(args);
                    format!("{}({})", f, a.join(", "))
                };
                if let Some(mk) = self.site("N18", s, e) {
                    self.push(s, e, format!("{}{}", new, mk), "N18");
                    return;
                }
            }
        }
        syn::visit::visit_expr_method_call(self, mc);
    }
    fn visit_expr_closure(&mut self, c: &'ast syn::ExprClosure) {
        // N4b: tuple-pattern closure parameters → plain identifier + leading `let`
        if (self.on)("N4") && c.asyncness.is_none() {
            let mut lets = String::new();
            let mut eds = vec![];
            for (k, p) in c.inputs.iter().enumerate() {
                if let syn::Pat::Tuple(_) = p {
                    let (s, e) = br(p.span());
                    let name = format!("__pv_c{}", k);
                    lets.push_str(&format!("let {} = {}; ", &self.text[s..e], name));
                    eds.push((s, e, name));
                }
            }
            if !eds.is_empty() {
                for (s, e, n) in eds {
                    self.push(s, e, n, "N4");
                }
                let (bs, be) = br(c.body.span());
                self.push(bs, bs, format!("{{ {}", lets), "N4");
                self.push(be, be, " }".to_string(), "N4");
                return;
            }
        }
        syn::visit::visit_expr_closure(self, c);
    }
    fn visit_expr_index(&mut self, ix: &'ast syn::ExprIndex) {
        if (self.on)("N13") {
            let t = nows(self.t(ix.index.span()));
            if self.reg_index.iter().any(|r| nows(r) == t) {
                let (s, e) = br(ix.index.span());
                let old = self.text[s..e].to_string();
                if let Some(mk) = self.site("N13", s, e) {
                    self.push(s, e, format!("{}.0 as usize{}", old, mk), "N13");
                }
            }
        }
        syn::visit::visit_expr_index(self, ix);
    }
    fn visit_expr_field(&mut self, f: &'ast syn::ExprField) {
        if let (Some(cv), syn::Member::Named(id)) = (&self.n6, &f.member) {
            if let syn::Expr::Path(p) = &*f.base {
                if p.path.is_ident(cv.as_str()) && (self.on)("N6") {
                    let (s, e) = br(f.span());
                    self.push(s, e, format!("ctx_{}({})", id, cv), "N6");
                    return;
                }
            }
        }
        syn::visit::visit_expr_field(self, f);
    }
    fn visit_expr_let(&mut self, l: &'ast syn::ExprLet) {
        self.try_n20(&l.pat, &l.expr);
        syn::visit::visit_expr_let(self, l);
    }
    fn visit_local(&mut self, l: &'ast syn::Local) {
        if let Some(init) = &l.init {
            if self.try_n20(&l.pat, &init.expr) {
                return;
            }
        }
        // N15: type ascription
        if let syn::Pat::Ident(pi) = &l.pat {
            if let Some(ty) = self.let_types.get(&pi.ident.to_string()) {
                if (self.on)("N15") {
                    let (_, e) = br(pi.span());
                    self.push(e, e, format!(": {}", ty), "N15");
                }
            }
        }
        // N6: `let &Context { a, b, .. } = ctx;`
        if let (Some(cv), Some(init)) = (&self.n6, &l.init) {
            if let (syn::Pat::Reference(rp), syn::Expr::Path(ip)) = (&l.pat, &*init.expr) {
                if let syn::Pat::Struct(ps) = &*rp.pat {
                    if ip.path.is_ident(cv.as_str()) && ps.path.is_ident("Context") && (self.on)("N6") {
                        let mut out = String::new();
                        let mut ok = true;
                        for fp in &ps.fields {
                            match (&fp.member, &*fp.pat) {
                                (syn::Member::Named(id), syn::Pat::Ident(pi)) if pi.ident == *id && pi.subpat.is_none() => {
                                    out.push_str(&format!("let {} = ctx_{}({}); ", id, id, cv));
                                }
                                _ => ok = false,
                            }
                        }
                        if ok {
                            let (s, e) = br(l.span());
                            self.push(s, e, out, "N6");
                            return;
                        }
                    }
                }
            }
        }
        // `let V = try_join_all(..);` (not awaited): evaluate eagerly, remember V
        if let (syn::Pat::Ident(pi), Some(init)) = (&l.pat, &l.init) {
            if let syn::Expr::Call(c) = &*init.expr {
                if self.try_n2_call(&init.expr, c, false) {
                    self.eager_futs.push(pi.ident.to_string());
                    return;
                }
            }
        }
        syn::visit::visit_local(self, l);
    }
    fn visit_expr_try(&mut self, t: &'ast syn::ExprTry) {
        // X.await?
        if let syn::Expr::Await(aw) = &*t.expr {
            if let syn::Expr::Call(c) = &*aw.base {
                // whole `try_join_all(..).await?`
                if self.try_n2_whole(t, c) {
                    return;
                }
                // try_join(a, b).await?  where a and b were made eager
                if let syn::Expr::Path(p) = &*c.func {
                    if p.path.segments.last().map(|s| s.ident == "try_join").unwrap_or(false) && (self.on)("N2") {
                        let all_ident = c.args.iter().all(|a| matches!(a, syn::Expr::Path(pp) if pp.path.get_ident().is_some()));
                        if all_ident {
                            let names: Vec<String> = c.args.iter().map(|a| self.t(a.span()).to_string()).collect();
                            let (s, e) = br(t.span());
                            self.push(s, e, format!("({})", names.join(", ")), "N2");
                            return;
                        }
                    }
                }
            }
        }
        // futures_util::try_join!(a, b)?
        if let syn::Expr::Macro(m) = &*t.expr {
            if m.mac.path.segments.last().map(|s| s.ident == "try_join").unwrap_or(false) && (self.on)("N2") {
                let toks = m.mac.tokens.to_string();
                let names: Vec<&str> = toks.split(',').map(|s| s.trim()).collect();
                if names.iter().all(|n| Regex::new(r"^[A-Za-z_][A-Za-z0-9_]*$").unwrap().is_match(n)) {
                    let (s, e) = br(t.span());
                    self.push(s, e, format!("({})", names.join(", ")), "N2");
                    return;
                }
            }
        }
        syn::visit::visit_expr_try(self, t);
    }
    fn visit_stmt(&mut self, s: &'ast syn::Stmt) {
        // drop logging macro statements
        if let syn::Stmt::Macro(m) = s {
            if let Some(last) = m.mac.path.segments.last() {
                let n = last.ident.to_string();
                if ["debug", "info", "trace", "warn", "error"].contains(&n.as_str()) && (self.on)("LOG") {
                    let (a, b) = br(s.span());
                    self.push(a, b, String::new(), "LOG");
                    return;
                }
            }
        }
        syn::visit::visit_stmt(self, s);
    }
}

impl<'t> Normaliser<'t> {
    fn try_n2_whole(&mut self, t: &syn::ExprTry, c: &syn::ExprCall) -> bool {
        if !(self.on)("N2") {
            return false;
        }
        let syn::Expr::Path(p) = &*c.func else { return false };
        if p.path.segments.last().map(|s| s.ident != "try_join_all").unwrap_or(true) || c.args.len() != 1 {
            return false;
        }
        let syn::Expr::MethodCall(map) = method_chain_base(&c.args[0]) else { return false };
        if map.method != "map" || map.args.len() != 1 {
            return false;
        }
        let syn::Expr::Closure(cl) = &map.args[0] else { return false };
        if cl.inputs.len() != 1 || has_return(&cl.body) {
            return false;
        }
        let pat = self.t(cl.inputs[0].span()).to_string();
        let body = self.t(cl.body.span()).to_string();
        let iter = self.t(map.receiver.span()).to_string();
        let item = if cl.asyncness.is_some() { body } else { format!("({}).await", body) };
        let (s, e) = br(t.span());
        let ty = self.n2_types.iter().find(|(r, _)| r.is_match(&self.text[s..e])).map(|(_, t)| format!(": Vec<{}>", t)).unwrap_or_default();
        let new = format!(
            "{{ let mut __pv_join{} = Vec::new(); for {} in {} {{ let __pv_r = {}; __pv_join.push(__pv_r?); }} __pv_join }}",
            ty, pat, iter, item
        );
        self.push(s, e, new, "N2");
        true
    }
}

/// N4 + instrument removal work on the signature
fn sig_edits(text: &str, fp: &FnParts, on: &dyn Fn(&str) -> bool, arg_names: &BTreeMap<String, String>, edits: &mut Vec<Edit>) {
    if on("INSTR") {
        for a in fp.attrs {
            let p = a.path();
            if p.segments.last().map(|s| s.ident == "instrument").unwrap_or(false) {
                let (s, e) = br(a.span());
                edits.push(Edit { start: s, end: e, text: String::new(), rule: "INSTR" });
            }
        }
    }
    if on("N4") {
        let mut lets = String::new();
        for (k, arg) in fp.sig.inputs.iter().enumerate() {
            if let syn::FnArg::Typed(pt) = arg {
                if matches!(&*pt.pat, syn::Pat::Tuple(_)) {
                    let (s, e) = br(pt.pat.span());
                    let name = arg_names.get(&k.to_string()).cloned().unwrap_or_else(|| format!("__pv_arg{}", k));
                    lets.push_str(&format!(" let {} = {};", &text[s..e], name));
                    edits.push(Edit { start: s, end: e, text: name, rule: "N4" });
                }
                // N4c: `mut x: T` parameter -> `x: T` + `let mut x = x;` (verus! has no `mut` parameters)
                if let syn::Pat::Ident(pi) = &*pt.pat {
                    if let Some(m) = &pi.mutability {
                        if pi.by_ref.is_none() && pi.subpat.is_none() {
                            let (ms, me) = br(m.span());
                            let (_, ie) = br(pi.ident.span());
                            let _ = me;
                            edits.push(Edit { start: ms, end: ie, text: pi.ident.to_string(), rule: "N4" });
                            lets.push_str(&format!(" let mut {} = {};", pi.ident, pi.ident));
                        }
                    }
                }
                // N4b: a `_` parameter gets a name (verus! wants identifiers)
                if matches!(&*pt.pat, syn::Pat::Wild(_)) {
                    let (s, e) = br(pt.pat.span());
                    let name = arg_names.get(&k.to_string()).cloned().unwrap_or_else(|| format!("_pv_arg{}", k));
                    edits.push(Edit { start: s, end: e, text: name, rule: "N4" });
                }
            }
        }
        if !lets.is_empty() {
            let (bs, _) = br(fp.block.span());
            edits.push(Edit { start: bs + 1, end: bs + 1, text: lets, rule: "N4" });
        }
    }
}

/// tags every inserted annotation line with a key, leaving out the lines the driver asked to drop;
/// a section keyword (`requires`, `ensures`, `invariant`, ..) left without clauses is removed
fn tag_lines(text: &str, prefix: &str, per_line: bool, drop: &[String]) -> String {
    let kw = ["requires", "ensures", "invariant", "decreases", "recommends", "invariant_except_break"];
    let is_kw = |l: &str| kw.contains(&l.trim());
    let mut kept: Vec<(String, String)> = vec![]; // (line, key)
    for (i, line) in text.lines().enumerate() {
        if line.trim().is_empty() {
            continue;
        }
        let key = if per_line { format!("{}:{}", prefix, i) } else { prefix.to_string() };
        if !is_kw(line) && drop.iter().any(|d| *d == key) {
            continue;
        }
        kept.push((line.to_string(), key));
    }
    let mut out = String::new();
    for k in 0..kept.len() {
        let (line, key) = &kept[k];
        if is_kw(line) {
            let next_is_clause = kept.get(k + 1).map(|(l, _)| !is_kw(l)).unwrap_or(false);
            if !next_is_clause {
                continue;
            }
            out.push_str(line);
            out.push('\n');
            continue;
        }
        out.push_str(line);
        out.push_str(&format!(" /*pv-ann:{}*/\n", key));
    }
    out
}

fn apply_edits(text: &str, mut edits: Vec<Edit>, item: &str, log: &mut Vec<RuleApp>) -> String {
    // choose a non-overlapping subset: outermost first (by start, then by larger size)
    edits.sort_by(|a, b| a.start.cmp(&b.start).then((b.end - b.start).cmp(&(a.end - a.start))));
    let mut chosen: Vec<Edit> = vec![];
    let mut last_end = 0usize;
    let mut last_was_insert_at = usize::MAX;
    for e in edits {
        let is_insert = e.start == e.end;
        if e.start < last_end {
            continue; // nested inside an already chosen replacement; a later pass will see it
        }
        if is_insert && e.start == last_was_insert_at {
            // two inserts at the same point: keep order
        }
        last_end = e.end.max(last_end);
        if is_insert {
            last_was_insert_at = e.start;
        }
        chosen.push(e);
    }
    let mut out = String::with_capacity(text.len() + 1024);
    let mut pos = 0;
    for e in &chosen {
        out.push_str(&text[pos..e.start]);
        out.push_str(&e.text);
        pos = e.end;
        log.push(RuleApp {
            rule: e.rule.to_string(),
            item: item.to_string(),
            line: line_of(text, e.start),
            old: text[e.start..e.end].to_string(),
            new: e.text.clone(),
        });
    }
    out.push_str(&text[pos..]);
    out
}

fn fail(report_path: &str, mut rep: Report, msg: String) -> ! {
    rep.ok = false;
    rep.error = msg.clone();
    std::fs::write(report_path, serde_json::to_string_pretty(&rep).unwrap()).ok();
    eprintln!("pvx: {}", msg);
    std::process::exit(3);
}

fn main() {
    let args: Vec<String> = std::env::args().collect();
    let job: Job = serde_json::from_str(&std::fs::read_to_string(&args[1]).expect("job file")).expect("job json");
    let mut rep = Report::default();
    let orig = std::fs::read_to_string(&job.src).expect("src");
    let mut text = orig.clone();

    // ---- pass -1 (N21): lift trait-impl methods to inherent methods
    for it in &job.items {
        let Some(l) = &it.lift else { continue };
        let file = match syn::parse_file(&text) {
            Ok(f) => f,
            Err(e) => fail(&job.report, rep, format!("parse error in {}: {}", job.src, e)),
        };
        if find_item(&file, &it.path).is_some() {
            continue; // already lifted (or the repository has such a method itself)
        }
        let found = find_item(&file, &l.from);
        // outline mode also works on free functions
        if let (Some(Found::Fn(f)), Some(_)) = (&found, &l.after) {
            let after = l.after.as_ref().unwrap();
            let rx = Regex::new(after).unwrap_or_else(|er| fail(&job.report, Report::default(), format!("bad lift regex {}: {}", after, er)));
            let name = it.path.trim().strip_prefix("fn ").unwrap_or("pv_outlined").trim().to_string();
            let stmts = &f.block.stmts;
            let Some(idx) = stmts.iter().position(|st| { let (a, b) = br(st.span()); rx.is_match(&text[a..b]) }) else {
                fail(&job.report, rep, format!("lost anchor: no statement of `{}` matches {:?}", l.from, after));
            };
            if idx + 1 >= stmts.len() {
                fail(&job.report, rep, format!("lost anchor: nothing follows the statement matching {:?} in `{}`", after, l.from));
            }
            let (ts, _) = br(stmts[idx + 1].span());
            let (_, te) = br(stmts[stmts.len() - 1].span());
            let tail = text[ts..te].to_string();
            let ret = match &f.sig.output { syn::ReturnType::Default => String::new(), syn::ReturnType::Type(_, t) => { let (a, b) = br(t.span()); format!(" -> {}", &text[a..b]) } };
            let is_async = f.sig.asyncness.is_some();
            let decl: Vec<String> = l.params.iter().map(|(n, t, _)| format!("{}: {}", n, t)).collect();
            let args: Vec<String> = l.params.iter().map(|(_, _, a)| a.clone()).collect();
            let func = format!("\n\n// N22: the statements of `{}` after `{}` (verbatim), outlined\n#[allow(clippy::too_many_arguments)]\n{}fn {}{}({}){} {{\n    {}\n}}\n",
                l.from, after, if is_async { "async " } else { "" }, name, l.generics, decl.join(", "), ret, format!("{}\n    {}", l.prologue, tail));
            let call = format!("{}({}){}", name, args.join(", "), if is_async { ".await" } else { "" });
            rep.rules.push(RuleApp { rule: "N22 statement range outlined into a free function".to_string(), item: l.from.clone(), line: line_of(&text, ts), old: text[ts..te].to_string(), new: call.clone() });
            text.push_str(&func);
            text.replace_range(ts..te, &call);
            continue;
        }
        let Some(Found::Method(imp, m)) = found else {
            fail(&job.report, rep, format!("lost anchor: item `{}` not found in {}", l.from, job.src));
        };
        if let Some(after) = &l.after {
            let rx = Regex::new(after).unwrap_or_else(|er| fail(&job.report, Report::default(), format!("bad lift regex {}: {}", after, er)));
            let name = it.path.trim().strip_prefix("fn ").unwrap_or("pv_outlined").trim().to_string();
            let stmts = &m.block.stmts;
            let Some(idx) = stmts.iter().position(|st| { let (a, b) = br(st.span()); rx.is_match(&text[a..b]) }) else {
                fail(&job.report, rep, format!("lost anchor: no statement of `{}` matches {:?}", l.from, after));
            };
            if idx + 1 >= stmts.len() {
                fail(&job.report, rep, format!("lost anchor: nothing follows the statement matching {:?} in `{}`", after, l.from));
            }
            let (ts, _) = br(stmts[idx + 1].span());
            let (_, te) = br(stmts[stmts.len() - 1].span());
            let mut tail = text[ts..te].to_string();
            let mut ret = match &m.sig.output { syn::ReturnType::Default => String::new(), syn::ReturnType::Type(_, t) => { let (a, b) = br(t.span()); format!(" -> {}", &text[a..b]) } };
            for (k, v) in &l.self_types {
                tail = tail.replace(k.as_str(), v.as_str());
                ret = ret.replace(k.as_str(), v.as_str());
            }
            let is_async = m.sig.asyncness.is_some();
            let decl: Vec<String> = l.params.iter().map(|(n, t, _)| format!("{}: {}", n, t)).collect();
            let args: Vec<String> = l.params.iter().map(|(_, _, a)| a.clone()).collect();
            let func = format!("\n\n// N22: the statements of `{}` after `{}` (verbatim), outlined\n#[allow(clippy::too_many_arguments)]\npub(crate) {}fn {}{}({}){} {{\n        {}\n}}\n",
                l.from, after, if is_async { "async " } else { "" }, name, l.generics, decl.join(", "), ret, tail);
            let call = format!("{}({}){}", name, args.join(", "), if is_async { ".await" } else { "" });
            rep.rules.push(RuleApp { rule: "N22 statement range outlined into a free function".to_string(), item: l.from.clone(), line: line_of(&text, ts), old: text[ts..te].to_string(), new: call.clone() });
            text.push_str(&func);
            text.replace_range(ts..te, &call);
            continue;
        }
        let new_name = it.path.rsplit("::").next().unwrap_or("pv_lifted").trim().to_string();
        let (ss, se) = br(m.sig.span());
        let (bs, be) = br(m.block.span());
        let (_, ie) = br(imp.span());
        // signature text with `_` parameters named and the method renamed
        let mut sig_edits_v: Vec<(usize, usize, String)> = vec![];
        let (ns, ne) = br(m.sig.ident.span());
        sig_edits_v.push((ns, ne, new_name.clone()));
        let mut args: Vec<String> = vec![];
        for (k, a) in m.sig.inputs.iter().enumerate() {
            match a {
                syn::FnArg::Receiver(_) => args.push("self".to_string()),
                syn::FnArg::Typed(pt) => match &*pt.pat {
                    syn::Pat::Ident(pi) => args.push(pi.ident.to_string()),
                    syn::Pat::Wild(w) => {
                        let nm = format!("_pv_arg{}", k);
                        let (ws, we) = br(w.span());
                        sig_edits_v.push((ws, we, nm.clone()));
                        args.push(nm);
                    }
                    _ => fail(&job.report, rep, format!("N21: parameter {} of `{}` is a pattern", k, l.from)),
                },
            }
        }
        sig_edits_v.sort_by(|a, b| b.0.cmp(&a.0));
        let mut new_sig = text[ss..se].to_string();
        let mut trait_sig = text[ss..se].to_string();
        for (a, b, t) in &sig_edits_v {
            new_sig.replace_range(a - ss..b - ss, t);
            if t != &new_name {
                trait_sig.replace_range(a - ss..b - ss, t);
            }
        }
        let mut body = text[bs..be].to_string();
        for (k, v) in &l.self_types {
            new_sig = new_sig.replace(k.as_str(), v.as_str());
            body = body.replace(k.as_str(), v.as_str());
        }
        let g = &imp.generics;
        let (impl_g, _ty_g, where_c) = g.split_for_impl();
        let self_ty = &imp.self_ty;
        let head = format!("impl{} {} {}", quote::quote!(#impl_g), quote::quote!(#self_ty), quote::quote!(#where_c));
        let is_async = m.sig.asyncness.is_some();
        let has_self = m.sig.receiver().is_some();
        let call = if has_self {
            format!("{{ Self::{}({}){} }}", new_name, args.join(", "), if is_async { ".await" } else { "" })
        } else {
            format!("{{ Self::{}({}){} }}", new_name, args.join(", "), if is_async { ".await" } else { "" })
        };
        let inherent = format!("\n\n// N21: body of `{}` (verbatim), as an inherent method\n{} {{\n    #[allow(clippy::too_many_arguments)]\n    pub(crate) {} {}\n}}\n", l.from, head, new_sig, body);
        rep.rules.push(RuleApp { rule: "N21 trait-impl method -> inherent method + one-line delegation".to_string(), item: l.from.clone(), line: line_of(&text, ss), old: text[ss..se].to_string(), new: format!("{} {}", trait_sig, call) });
        // apply back to front: insertion after the impl, body, signature
        text.insert_str(ie, &inherent);
        text.replace_range(bs..be, &call);
        text.replace_range(ss..se, &trait_sig);
    }

    // ---- record original extents
    {
        let file = match syn::parse_file(&text) {
            Ok(f) => f,
            Err(e) => fail(&job.report, rep, format!("parse error in {}: {}", job.src, e)),
        };
        for it in &job.items {
            let Some(f) = find_item(&file, &it.path) else {
                fail(&job.report, rep, format!("lost anchor: item `{}` not found in {}", it.path, job.src));
            };
            let (s, e) = match &f {
                Found::Fn(x) => br(x.span()),
                Found::Method(_, m) => br(m.span()),
                Found::Impl(i) => br(i.span()),
                Found::Other(o) => br(o.span()),
            };
            rep.items.push(ItemReport {
                path: it.path.clone(),
                orig_start_line: line_of(&text, s),
                orig_end_line: line_of(&text, e),
                orig_lines: line_of(&text, e) - line_of(&text, s) + 1,
                ..Default::default()
            });
        }
    }

    // ---- pass 0: function-specific substitutions (exact text, once inside the item)
    for it in &job.items {
        for sb in &it.subst {
            let file = syn::parse_file(&text).unwrap_or_else(|e| fail(&job.report, Report::default(), format!("parse error after subst: {}", e)));
            let Some(f) = find_item(&file, &it.path) else {
                fail(&job.report, rep, format!("lost anchor: item `{}`", it.path));
            };
            let (s, e) = match &f {
                Found::Fn(x) => br(x.span()),
                Found::Method(_, m) => br(m.span()),
                Found::Impl(i) => br(i.span()),
                Found::Other(o) => br(o.span()),
            };
            let body = &text[s..e];
            if sb.re {
                let rx = Regex::new(&sb.old).unwrap_or_else(|er| fail(&job.report, Report::default(), format!("bad subst regex {}: {}", sb.old, er)));
                let n = rx.find_iter(body).count();
                if sb.all && n >= 1 {
                    let replaced = rx.replace_all(body, sb.new.as_str()).to_string();
                    rep.rules.push(RuleApp { rule: format!("SUBST(all x{}) {}", n, sb.why), item: it.path.clone(), line: line_of(&text, s), old: sb.old.clone(), new: sb.new.clone() });
                    text.replace_range(s..e, &replaced);
                    continue;
                }
                if n != 1 {
                    if !sb.required {
                        rep.rules.push(RuleApp { rule: format!("SUBST-NOT-APPLIED {}", sb.why), item: it.path.clone(), line: 0, old: sb.old.clone(), new: String::new() });
                        continue;
                    }
                    fail(&job.report, rep, format!("lost anchor: regex subst in `{}` matches {} times: {:?}", it.path, n, sb.old));
                }
                let m = rx.find(body).unwrap();
                let (ms, me) = (m.start() + s, m.end() + s);
                let replaced = rx.replace(&text[ms..me], sb.new.as_str()).to_string();
                rep.rules.push(RuleApp { rule: format!("SUBST {}", sb.why), item: it.path.clone(), line: line_of(&text, ms), old: text[ms..me].to_string(), new: replaced.clone() });
                text.replace_range(ms..me, &replaced);
                continue;
            }
            let n = body.matches(sb.old.as_str()).count();
            if n != 1 {
                if !sb.required && n == 0 {
                    rep.rules.push(RuleApp { rule: format!("SUBST-NOT-APPLIED {}", sb.why), item: it.path.clone(), line: 0, old: sb.old.clone(), new: String::new() });
                    continue;
                }
                fail(&job.report, rep, format!("lost anchor: subst in `{}` matches {} times: {:?}", it.path, n, sb.old));
            }
            let off = body.find(sb.old.as_str()).unwrap() + s;
            rep.rules.push(RuleApp { rule: format!("SUBST {}", sb.why), item: it.path.clone(), line: line_of(&text, off), old: sb.old.clone(), new: sb.new.clone() });
            text.replace_range(off..off + sb.old.len(), &sb.new);
        }
    }

    // ---- pass 1: normalisation to a fixpoint
    for round in 0..40 {
        let file = match syn::parse_file(&text) {
            Ok(f) => f,
            Err(e) => {
                std::fs::write(format!("{}.failed.rs", job.out), &text).ok();
                let lc = e.span().start();
                fail(&job.report, rep, format!("parse error after normalisation round {}: {} at line {} col {}", round, e, lc.line, lc.column))
            }
        };
        let mut all: Vec<(String, Vec<Edit>)> = vec![];
        for it in &job.items {
            let Some(f) = find_item(&file, &it.path) else {
                fail(&job.report, rep, format!("lost anchor: item `{}`", it.path));
            };
            let off = it.no_rules.clone();
            let on = move |r: &str| !off.iter().any(|x| x == r);
            let mut edits = vec![];
            let fns: Vec<FnParts> = match &f {
                Found::Impl(imp) => imp
                    .items
                    .iter()
                    .filter_map(|ii| if let syn::ImplItem::Fn(m) = ii { Some(FnParts { attrs: &m.attrs, sig: &m.sig, block: &m.block, whole: br(m.span()) }) } else { None })
                    .collect(),
                _ => fn_parts(&f).into_iter().collect(),
            };
            for fp in &fns {
                sig_edits(&text, fp, &on, &it.arg_names, &mut edits);
                // external_body items keep their body verbatim (only the signature rules apply)
                if it.attrs.iter().any(|a| a.contains("external_body") || a.contains("verifier::external]")) {
                    continue;
                }
                let mut nz = Normaliser { method_to_fn_val: it.method_to_fn_val.iter().filter_map(|(r, m, f)| Regex::new(r).ok().map(|r| (r, m.clone(), f.clone()))).collect(), skip_sites: &job.skip_sites, method_to_fn: it.method_to_fn.iter().filter_map(|(r, m, f)| Regex::new(r).ok().map(|r| (r, m.clone(), f.clone()))).collect(), eq_sites: it.eq_sites.iter().filter_map(|r| Regex::new(r).ok()).collect(), deref_operands: it.deref_operands.clone(), sends: it.sends.clone(), n2_types: it.n2_types.iter().filter_map(|(r, t)| Regex::new(r).ok().map(|r| (r, t.clone()))).collect(), let_types: it.let_types.clone(), n9: it.n9, n6: it.n6.clone(), reg_index: it.reg_index.clone(), bool_and: it.bool_and.iter().filter_map(|r| Regex::new(r).ok()).collect(), n3_all: it.n3.as_deref() == Some("all"), n3_match: it.n3_match.iter().filter_map(|r| Regex::new(r).ok()).collect(), text: &text, edits: vec![], on: &on, eager_futs: vec![] };
                nz.visit_block(fp.block);
                edits.extend(nz.edits);
                let _ = fp.whole;
            }
            if !edits.is_empty() {
                all.push((it.path.clone(), edits));
            }
        }
        if all.is_empty() {
            break;
        }
        // apply all items' edits in one go (items are disjoint)
        let mut flat: Vec<Edit> = vec![];
        let mut names: BTreeMap<usize, String> = BTreeMap::new();
        for (n, es) in all {
            for e in es {
                names.insert(e.start, n.clone());
                flat.push(e);
            }
        }
        let mut log = vec![];
        text = apply_edits(&text, flat, "", &mut log);
        for mut l in log {
            // attribute to the item by position
            l.item = String::new();
            rep.rules.push(l);
        }
        if round == 39 {
            fail(&job.report, rep, "normalisation did not reach a fixpoint".to_string());
        }
    }

    // ---- pass 2: annotations (pure insertions) + verus! wrapping
    let file = match syn::parse_file(&text) {
        Ok(f) => f,
        Err(e) => fail(&job.report, rep, format!("parse error before annotation: {}", e)),
    };
    let mut edits: Vec<Edit> = vec![];
    let mut wrapped: Vec<(usize, usize)> = vec![];
    let mut clones: Vec<String> = vec![];
    for (k, it) in job.items.iter().enumerate() {
        let Some(f) = find_item(&file, &it.path) else {
            fail(&job.report, rep, format!("lost anchor: item `{}`", it.path));
        };
        // range to wrap in verus!{}
        let wrap = match &f {
            Found::Fn(x) => br(x.span()),
            Found::Method(imp, _) => br(imp.span()),
            Found::Impl(i) => br(i.span()),
            Found::Other(o) => br(o.span()),
        };
        if !wrapped.contains(&wrap) {
            wrapped.push(wrap);
            edits.push(Edit { start: wrap.0, end: wrap.0, text: "verus! {\n".into(), rule: "WRAP" });
            edits.push(Edit { start: wrap.1, end: wrap.1, text: "\n} // verus!\n".into(), rule: "WRAP" });
            // methods of this impl that are not targets become external
            if let Found::Method(imp, _) = &f {
                for ii in &imp.items {
                    if let syn::ImplItem::Fn(m) = ii {
                        let is_target = job.items.iter().any(|o| matches!(find_item(&file, &o.path), Some(Found::Method(i2, m2)) if std::ptr::eq(i2, *imp) && m2.sig.ident == m.sig.ident));
                        if !is_target {
                            let (s, _) = br(m.span());
                            edits.push(Edit { start: s, end: s, text: "#[verifier::external]\n".into(), rule: "EXT" });
                        }
                    }
                }
            }
        }
        let Some(fp) = fn_parts(&f) else { continue };
        let mut ins_lines = 0usize;
        // resolve aliases on the item text
        let item_text = &text[fp.whole.0..fp.whole.1];
        let mut alias_val: BTreeMap<String, Option<String>> = BTreeMap::new();
        for (name, rx) in &it.alias {
            let re = Regex::new(rx).unwrap_or_else(|e| fail(&job.report, Report::default(), format!("bad alias regex {}: {}", rx, e)));
            alias_val.insert(name.clone(), re.captures(item_text).and_then(|c| c.get(1)).map(|m| m.as_str().to_string()));
        }
        let subst_alias = |t: &str| -> String {
            if alias_val.is_empty() {
                return t.to_string();
            }
            let mut out = String::new();
            for line in t.lines() {
                let mut l = line.to_string();
                let mut drop = false;
                for (name, val) in &alias_val {
                    let key = format!("${}", name);
                    if l.contains(&key) {
                        match val {
                            Some(v) => l = l.replace(&key, v),
                            None => drop = true,
                        }
                    }
                }
                if !drop {
                    out.push_str(&l);
                    out.push('\n');
                }
            }
            out
        };
        let it = &{
            let mut it2 = it.clone();
            it2.spec = tag_lines(&subst_alias(&it.spec), &format!("I{}.S", k), true, &job.drop_keys);
            for (li, l) in it2.loops.iter_mut().enumerate() {
                l.inv = tag_lines(&subst_alias(&l.inv), &format!("I{}.L{}", k, li), true, &job.drop_keys);
            }
            for (pi, p) in it2.proofs.iter_mut().enumerate() {
                p.text = tag_lines(&subst_alias(&p.text), &format!("I{}.P{}", k, pi), false, &job.drop_keys);
            }
            it2
        };
        // attributes
        if !it.attrs.is_empty() {
            let (s, _) = fp.whole;
            let t = it.attrs.join("\n") + "\n";
            ins_lines += it.attrs.len();
            edits.push(Edit { start: s, end: s, text: t, rule: "ATTR" });
        }
        // named return
        if let (Some(name), syn::ReturnType::Type(_, ty)) = (&it.ret, &fp.sig.output) {
            let (s, e) = br(ty.span());
            edits.push(Edit { start: s, end: s, text: format!("({}: ", name), rule: "RET" });
            edits.push(Edit { start: e, end: e, text: ")".into(), rule: "RET" });
        }
        let (bs, be) = br(fp.block.span());
        if !it.spec.trim().is_empty() {
            ins_lines += it.spec.lines().count();
            edits.push(Edit { start: bs, end: bs, text: format!("\n{}\n", it.spec.trim_end()), rule: "SPEC" });
        }
        // loops
        let mut lc = LoopCollector { text: &text, loops: vec![] };
        lc.visit_block(fp.block);
        rep.items[k].loops = lc.loops.len();
        rep.items[k].loop_headers = lc.loops.iter().map(|l| l.header.clone()).collect();
        if let Some(n) = it.n_loops {
            if n != lc.loops.len() {
                fail(&job.report, rep, format!("lost anchor: `{}` has {} loops after normalisation, unit expects {}", it.path, lc.loops.len(), n));
            }
        }
        let mut claimed: Vec<usize> = vec![];
        let mut loop_names: BTreeMap<String, usize> = BTreeMap::new();
        for ls in &it.loops {
            let found: Option<usize> = if ls.matches.is_some() || ls.body.is_some() {
                let re = Regex::new(ls.matches.as_deref().unwrap_or("")).unwrap_or_else(|e| fail(&job.report, Report::default(), format!("bad regex: {}", e)));
                let reb = Regex::new(ls.body.as_deref().unwrap_or("")).unwrap_or_else(|e| fail(&job.report, Report::default(), format!("bad regex: {}", e)));
                (0..lc.loops.len()).find(|k| !claimed.contains(k) && re.is_match(&lc.loops[*k].header) && reb.is_match(&lc.loops[*k].body_text))
            } else {
                ls.ord.filter(|o| *o < lc.loops.len())
            };
            let Some(k) = found else {
                if ls.optional {
                    continue;
                }
                fail(&job.report, rep, format!("lost anchor: `{}` has no loop {:?}/{:?}", it.path, ls.ord, ls.matches));
            };
            claimed.push(k);
            if let Some(nm) = &ls.name {
                loop_names.insert(nm.clone(), k);
            }
            let li = &lc.loops[k];
            if let Some(rx) = &ls.expect {
                if !Regex::new(rx).map(|r| r.is_match(&li.header)).unwrap_or(false) {
                    fail(&job.report, rep, format!("lost anchor: loop #{} of `{}` has header `{}`, expected /{}/", k, it.path, li.header, rx));
                }
            }
            if let (Some(name), Some((es, _))) = (&ls.iter, li.expr) {
                edits.push(Edit { start: es, end: es, text: format!("{}: ", name), rule: "ITER" });
            }
            if !ls.inv.trim().is_empty() {
                ins_lines += ls.inv.lines().count();
                edits.push(Edit { start: li.body_open, end: li.body_open, text: format!("\n{}\n", ls.inv.trim_end()), rule: "INV" });
            }
            let _ = li.kind;
        }
        // proofs
        for ps in &it.proofs {
            ins_lines += ps.text.lines().count();
            let at = ps.at.trim();
            let pos = if at == "fn:begin" {
                bs + 1
            } else if at == "fn:end" {
                // before the tail expression if any, else before closing brace
                match fp.block.stmts.last() {
                    Some(syn::Stmt::Expr(e, None)) => br(e.span()).0,
                    _ => be - 1,
                }
            } else if let Some(r) = at.strip_prefix("loop:") {
                let mut sp = r.split(':');
                let tok = sp.next().unwrap_or("");
                let ord: usize = if let Some(nm) = tok.strip_prefix('@') {
                    match loop_names.get(nm) {
                        Some(k) => *k,
                        None => {
                            if ps.optional || it.loops.iter().any(|l| l.name.as_deref() == Some(nm) && l.optional) {
                                continue;
                            }
                            fail(&job.report, rep, format!("lost anchor: `{}` has no loop named {} (proof)", it.path, nm));
                        }
                    }
                } else {
                    tok.parse().unwrap_or(usize::MAX)
                };
                let wh = sp.next().unwrap_or("begin");
                let Some(li) = lc.loops.get(ord) else {
                    fail(&job.report, rep, format!("lost anchor: `{}` has no loop #{} (proof)", it.path, ord));
                };
                match wh {
                    "begin" => li.body_open + 1,
                    "end" => li.body_close,
                    "after" => li.body_close + 1,
                    _ => fail(&job.report, rep, format!("bad proof position {}", at)),
                }
            } else if let Some(rx) = at.strip_prefix("before:").or_else(|| at.strip_prefix("after:")) {
                let before = at.starts_with("before:");
                let re = Regex::new(rx).unwrap_or_else(|e| fail(&job.report, Report::default(), format!("bad regex {}: {}", rx, e)));
                struct SF<'t> {
                    text: &'t str,
                    re: &'t Regex,
                    hits: Vec<(usize, usize)>,
                }
                impl<'a, 't> Visit<'a> for SF<'t> {
                    fn visit_stmt(&mut self, s: &'a syn::Stmt) {
                        let (a, b) = br(s.span());
                        // match only on the first line(s) of the statement: its own text up to 200 chars
                        let t = &self.text[a..b];
                        let head: String = t.chars().take(240).collect();
                        if self.re.is_match(&head) {
                            self.hits.push((a, b));
                        }
                        syn::visit::visit_stmt(self, s);
                    }
                }
                let mut sf = SF { text: &text, re: &re, hits: vec![] };
                sf.visit_block(fp.block);
                // innermost = smallest span
                sf.hits.sort_by_key(|(a, b)| b - a);
                let Some((a, b)) = sf.hits.first().copied() else {
                    if ps.optional {
                        continue;
                    }
                    fail(&job.report, rep, format!("lost anchor: no statement of `{}` matches /{}/", it.path, rx));
                };
                if before {
                    a
                } else {
                    b
                }
            } else {
                fail(&job.report, rep, format!("bad proof position {}", at));
            };
            edits.push(Edit { start: pos, end: pos, text: format!("\n{}\n", ps.text.trim_end()), rule: "PROOF" });
        }
        rep.items[k].inserted_lines = ins_lines;
        let _ = &mut clones;
        let _ = &it.clone_as;
    }
    // pure insertions: stable order by position (Vec order preserved for equal positions)
    edits.sort_by(|a, b| a.start.cmp(&b.start));
    let mut out = String::with_capacity(text.len() + 4096);
    let mut pos = 0;
    for e in &edits {
        if e.start < pos {
            fail(&job.report, rep, format!("internal: overlapping annotation edits at {}", e.start));
        }
        out.push_str(&text[pos..e.start]);
        out.push_str(&e.text);
        pos = e.end;
    }
    out.push_str(&text[pos..]);
    // the prepend text goes after the file's inner attributes / inner doc comments
    let head_end = {
        let f0 = syn::parse_file(&text).unwrap();
        let raw = f0.attrs.iter().map(|a| br(a.span()).1).max().unwrap_or(0);
        // translate position in `text` to position in `out`: all annotation edits are insertions
        let mut shift = 0usize;
        for e in &edits {
            if e.start < raw {
                shift += e.text.len();
            }
        }
        raw + shift
    };
    let mut final_text = String::new();
    final_text.push_str(&out[..head_end]);
    final_text.push_str("\n");
    final_text.push_str(&job.prepend);
    final_text.push_str(&out[head_end..]);
    final_text.push_str(&job.append);
    std::fs::write(&job.out, final_text).expect("write out");
    rep.ok = true;
    std::fs::write(&job.report, serde_json::to_string_pretty(&rep).unwrap()).expect("write report");
}
