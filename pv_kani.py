"""Kani / CBMC back end of pv: bit-precise checks of synchronous kernels and bounded stand-ins with
counterexamples. Harness modules (kani/harness/*.toml) are appended to the *current* source files of a
scratch copy of /repo as `#[cfg(kani)] mod ...` children, so private items are reachable and the code
under test is the real code."""
import os, re, json, glob, subprocess, shutil, tempfile, time, sys, concurrent.futures

try:
    import tomllib
except ImportError:  # pragma: no cover
    import tomli as tomllib

VERIF = os.path.dirname(os.path.abspath(__file__))
REPO = os.environ.get("PV_REPO", "/repo")
CACHE = os.path.join(VERIF, ".cache")
KANI_TARGET = os.path.join(CACHE, "kani-target")
SCRATCH_PARENT = os.environ.get("PV_SCRATCH", "/var/tmp")


def log(*a):
    print(*a, file=sys.stderr, flush=True)


def load_harness_units():
    out = []
    for p in sorted(glob.glob(os.path.join(VERIF, "kani", "harness", "*.toml"))):
        with open(p, "rb") as f:
            u = tomllib.load(f)
        u.setdefault("id", os.path.basename(p)[:-5])
        u.setdefault("props", [])
        u.setdefault("harness", [])
        out.append(u)
    return out


def prepare(scratch, units):
    """scratch/polytune = stand-alone copy of the polytune package with harness modules appended"""
    dst = os.path.join(scratch, "polytune")
    os.makedirs(dst)
    for name in ("src", "Cargo.lock", "Cargo.toml", "README.md"):
        s = os.path.join(REPO, name)
        if os.path.isdir(s):
            shutil.copytree(s, os.path.join(dst, name))
        elif os.path.exists(s):
            shutil.copy(s, os.path.join(dst, name))
    ct = open(os.path.join(dst, "Cargo.toml")).read()
    # stand-alone package: no workspace members, no dev-dependencies / benches
    ct = re.sub(r"\[workspace\]\s*members\s*=\s*\[[^\]]*\]", "[workspace]", ct, flags=re.S)
    ct = re.sub(r"\[dev-dependencies\].*?(?=\n\[)", "", ct, flags=re.S)
    ct = re.sub(r"\[\[bench\]\].*?(?=\n\[)", "", ct, flags=re.S)
    ct += "\n[patch.crates-io]\ntracing = { path = \"%s\" }\n" % os.path.join(VERIF, "kani", "tracing-noop")
    ct += "\n[lints.rust]\nunexpected_cfgs = { level = \"allow\" }\n" if "[lints" not in ct.split("[package]")[1] else ""
    open(os.path.join(dst, "Cargo.toml"), "w").write(ct)
    os.makedirs(os.path.join(dst, ".cargo"), exist_ok=True)
    open(os.path.join(dst, ".cargo", "config.toml"), "w").write("[net]\noffline = true\n")
    for u in units:
        f = os.path.join(dst, u["file"])
        if not os.path.exists(f):
            return None, "lost anchor: %s does not exist" % u["file"]
        with open(f, "a") as fh:
            fh.write("\n// ---- appended by /verif kani unit %s\n%s\n" % (u["id"], u["module"]))
    return dst, ""


def run_harness(dst, name, extra=None, timeout=1800):
    env = dict(os.environ, CARGO_NET_OFFLINE="true", CARGO_TARGET_DIR=KANI_TARGET)
    cmd = ["cargo", "kani", "--harness", name, "-Z", "function-contracts", "-Z", "stubbing", "--output-format", "terse"] + (extra or [])
    t0 = time.time()
    try:
        r = subprocess.run(cmd, cwd=dst, env=env, stdout=subprocess.PIPE, stderr=subprocess.STDOUT, text=True, timeout=timeout)
        out = r.stdout
        rc = r.returncode
    except subprocess.TimeoutExpired as e:
        out = (e.stdout or "") if isinstance(e.stdout, str) else ""
        rc = -9
    wall = time.time() - t0
    status = "error"
    if "VERIFICATION:- SUCCESSFUL" in out:
        status = "pass"
    elif "VERIFICATION:- FAILED" in out:
        status = "fail"
    elif rc == -9:
        status = "timeout"
    failed = []
    for m in re.finditer(r"Failed Checks: (.*)", out):
        failed.append(m.group(1).strip())
    n_checks = None
    m = re.search(r"\*\* (\d+) of (\d+) failed", out)
    if m:
        n_checks = int(m.group(2))
    else:
        m = re.search(r"SUMMARY:\s*\n\s*\*\* (\d+) of (\d+)", out)
    sat_time = None
    m2 = re.search(r"Verification Time: ([0-9.]+)s", out)
    if m2:
        sat_time = float(m2.group(1))
    return {"harness": name, "cmd": " ".join(cmd), "status": status, "failed_checks": failed, "checks": n_checks,
            "verification_time_s": sat_time, "wall_s": round(wall, 1), "tail": out[-3000:] if status in ("error", "timeout") else "", "rc": rc}


def playback(dst, name, timeout=900):
    """ask Kani for concrete values of a failing harness (printed unit test)"""
    env = dict(os.environ, CARGO_NET_OFFLINE="true", CARGO_TARGET_DIR=KANI_TARGET)
    cmd = ["cargo", "kani", "--harness", name, "-Z", "function-contracts", "-Z", "stubbing", "-Z", "concrete-playback", "--concrete-playback=print", "--output-format", "terse"]
    try:
        r = subprocess.run(cmd, cwd=dst, env=env, stdout=subprocess.PIPE, stderr=subprocess.STDOUT, text=True, timeout=timeout)
    except subprocess.TimeoutExpired:
        return ""
    m = re.search(r"(#\[test\].*?\n}\n)", r.stdout, flags=re.S)
    if m:
        return m.group(1)
    m = re.search(r"Concrete playback unit test.*", r.stdout, flags=re.S)
    return m.group(0)[:6000] if m else ""


def run_for_property(prop, tier="quick", only=None, jobs=4):
    """returns dict(status=ok|undecided, results=[...], units=[...])"""
    units = [u for u in load_harness_units() if prop in u["props"] and (not only or u["id"] in only)]
    if not units:
        return {"status": "none", "results": [], "units": []}
    scratch = tempfile.mkdtemp(prefix="pv-kani-%s-" % prop, dir=SCRATCH_PARENT)
    try:
        dst, msg = prepare(scratch, units)
        if dst is None:
            return {"status": "undecided", "reason": msg, "results": [], "units": [u["id"] for u in units]}
        todo = []
        for u in units:
            for h in u["harness"]:
                if h.get("tier", "quick") == "thorough" and tier != "thorough":
                    continue
                todo.append((u, h))
        results = []
        # concurrent `pv check` processes share one Kani target dir: serialise the Kani phases across processes
        # (the per-harness timeouts then measure verification, not waiting for cargo's build-directory lock)
        import fcntl
        os.makedirs(os.path.dirname(KANI_TARGET), exist_ok=True)
        lockf = open(os.path.join(os.path.dirname(KANI_TARGET), "kani.lock"), "w")
        fcntl.flock(lockf, fcntl.LOCK_EX)
        # cargo decides freshness of a path package by comparing source mtimes with the last build's dep-info; the
        # shared target dir may hold a build of ANOTHER tree finished after this scratch copy was made (a concurrent
        # `pv check` on a modified tree): make every source of this copy newer than anything built before, so that
        # the crate is always rebuilt from THIS copy
        now = time.time()
        for root, _dirs, files in os.walk(os.path.join(dst, "src")):
            for fn in files:
                try:
                    os.utime(os.path.join(root, fn), (now, now))
                except OSError:
                    pass
        # first harness alone (compiles the crate once), the rest in parallel
        def one(uh):
            u, h = uh
            r = run_harness(dst, h["name"], h.get("args"), h.get("timeout", 900))
            r.update({"unit": u["id"], "bound": h.get("bound", ""), "kind": h.get("kind", "bounded"), "props": h.get("props", u["props"]), "implicit": u.get("implicit", []), "clause": h.get("clause", "")})
            if r["status"] == "fail":
                r["playback"] = playback(dst, h["name"])
                try:
                    r["native_replay"] = native_replay(u, h["name"], r["playback"])
                except Exception as e:  # never let the replay machinery change a verdict
                    r["native_replay"] = {"status": "error", "detail": repr(e)[:300]}
            return r
        if todo:
            # the dependencies are warm (pv setup); cargo serialises the crate builds on its build-directory lock,
            # the CBMC runs overlap
            with concurrent.futures.ThreadPoolExecutor(max_workers=max(jobs, 6)) as ex:
                results += list(ex.map(one, todo))
        return {"status": "ok", "results": results, "units": [u["id"] for u in units]}
    finally:
        try:
            lockf.close()
        except Exception:
            pass
        shutil.rmtree(scratch, ignore_errors=True)


REPLAY_TARGET = os.path.join(CACHE, "replay-target")


def native_replay(unit, harness, playback_text, timeout=1500):
    """Run the harness body NATIVELY on the concrete values of a Kani counterexample: scratch copy of the whole
    workspace of PV_REPO, the unit's harness module compiled under #[cfg(test)] against kani/shim (a stand-in for the
    kani crate that replays the values), ordinary `cargo test`. Returns dict(status=reproduced|not-reproduced|error)."""
    vals = []
    m = re.search(r"let concrete_vals: Vec<Vec<u8>> = vec!\[(.*?)\n\s*\];", playback_text or "", flags=re.S)
    if not m:
        return {"status": "error", "detail": "no concrete values in the playback text"}
    for vm in re.finditer(r"vec!\[([0-9,\s]*)\]", m.group(1)):
        vals.append([int(x) for x in vm.group(1).replace(" ", "").split(",") if x != ""])
    fn = harness.split("::")[-1]
    scratch = tempfile.mkdtemp(prefix="pv-replay-", dir=SCRATCH_PARENT)
    try:
        dst = os.path.join(scratch, "ws")
        shutil.copytree(REPO, dst, ignore=shutil.ignore_patterns("target", ".git"))
        shutil.copy(os.path.join(VERIF, "kani", "shim", "pv_kani_shim.rs"), os.path.join(dst, "src", "pv_kani_shim.rs"))
        with open(os.path.join(dst, "src", "lib.rs"), "a") as fh:
            fh.write("\n#[cfg(test)]\n#[allow(missing_docs)]\nmod pv_kani_shim;\n")
        mod = unit["module"]
        mod = mod.replace("#[cfg(kani)]", "#[cfg(test)]")
        mod = re.sub(r"#\[kani::(proof|unwind\([^)]*\)|solver\([^)]*\)|should_panic)\]", "", mod)
        test = ("\n    #[test]\n    fn pv_native_replay_%s() {\n        crate::pv_kani_shim::load(vec![%s]);\n        %s();\n    }\n"
                % (fn, ", ".join("vec![%s]" % ", ".join(str(b) for b in v) for v in vals), fn))
        k = mod.rstrip().rfind("}")
        mod = mod[:k] + test + "}\n"
        mod = re.sub(r"(mod\s+\w+\s*\{)", r"\1\n    #[allow(unused_imports)] use crate::pv_kani_shim as kani;", mod, count=1)
        with open(os.path.join(dst, unit["file"]), "a") as fh:
            fh.write("\n// ---- native replay of a Kani counterexample (unit %s)\n%s\n" % (unit["id"], mod))
        env = dict(os.environ, CARGO_NET_OFFLINE="true", CARGO_TARGET_DIR=REPLAY_TARGET)
        cmd = ["cargo", "test", "--offline", "-p", "polytune", "--lib", "pv_native_replay_" + fn, "--", "--nocapture"]
        try:
            r = subprocess.run(cmd, cwd=dst, env=env, stdout=subprocess.PIPE, stderr=subprocess.STDOUT, text=True, timeout=timeout)
        except subprocess.TimeoutExpired:
            return {"status": "error", "detail": "timeout", "cmd": " ".join(cmd)}
        out = r.stdout
        msg = re.search(r"PV-REPLAY-ASSERTION-FAILED: ([^\n']*)", out)
        if msg:
            return {"status": "reproduced", "detail": "the harness body, run natively on the real code with these values, fails: " + msg.group(1).strip(), "cmd": " ".join(cmd), "values": vals}
        if "PV-REPLAY-ASSUMPTION-VIOLATED" in out:
            return {"status": "error", "detail": "replayed values violate an assumption of the harness", "cmd": " ".join(cmd)}
        pm = re.search(r"panicked at ([^\n]*)\n([^\n]*)", out)
        if pm and "test result: FAILED" in out:
            return {"status": "reproduced", "detail": "the real code panics natively on these values: %s %s" % (pm.group(1)[:200], pm.group(2)[:200]), "cmd": " ".join(cmd), "values": vals}
        if "test result: ok" in out:
            return {"status": "not-reproduced", "detail": "the natively executed harness passes on these values", "cmd": " ".join(cmd), "values": vals}
        return {"status": "error", "detail": out[-1500:], "cmd": " ".join(cmd)}
    finally:
        shutil.rmtree(scratch, ignore_errors=True)


def setup():
    """warm the Kani target dir (dependencies compiled once)"""
    units = load_harness_units()
    if not units:
        return
    marker = os.path.join(KANI_TARGET, ".pv_warm")
    if os.path.exists(marker):
        return
    log("[pv] warming the Kani target dir (compiles polytune's dependencies for Kani once)")
    scratch = tempfile.mkdtemp(prefix="pv-kani-setup-", dir=SCRATCH_PARENT)
    try:
        u = units[0]
        dst, msg = prepare(scratch, [u])
        if dst and u["harness"]:
            r = run_harness(dst, u["harness"][0]["name"], u["harness"][0].get("args"), 3600)
            log("[pv] kani warm-up:", r["status"], r["wall_s"], "s")
            if r["status"] in ("pass", "fail"):
                os.makedirs(KANI_TARGET, exist_ok=True)
                open(marker, "w").write("ok")
            else:
                log(r["tail"])
    finally:
        shutil.rmtree(scratch, ignore_errors=True)


if __name__ == "__main__":
    prop = sys.argv[1]
    res = run_for_property(prop, "quick")
    print(json.dumps(res, indent=1)[:6000])
