use polytune::{channel::SimpleChannel, garble_lang::register_circuit::*, mpc};

fn circ() -> Circuit {
    Circuit {
        input_regs: vec![1, 1],
        insts: vec![
            Inst { out: Reg(0), op: Op::Input(Input { party: 0, input: 0 }) },
            Inst { out: Reg(1), op: Op::Input(Input { party: 1, input: 0 }) },
            Inst { out: Reg(0), op: Op::Xor(Xor(Reg(0), Reg(1))) },
        ],
        max_reg_count: 2,
        output_regs: vec![Reg(0)],
        and_ops: 0,
    }
}

async fn run(p_eval: usize, p_out: Vec<usize>, c: Circuit) -> Vec<Result<Vec<bool>, String>> {
    let mut chans = SimpleChannel::channels(2);
    let c1 = chans.pop().unwrap();
    let c0 = chans.pop().unwrap();
    let ca = c.clone();
    let pa = p_out.clone();
    let h = tokio::spawn(async move { mpc(&c1, &ca, &[true], p_eval, 1, &pa, None).await.map_err(|e| format!("{e:?}")) });
    let r0 = tokio::time::timeout(std::time::Duration::from_secs(60), mpc(&c0, &c, &[false], p_eval, 0, &p_out, None)).await;
    let r0 = match r0 { Ok(r) => r.map_err(|e| format!("{e:?}")), Err(_) => Err("TIMEOUT".into()) };
    let r1 = match tokio::time::timeout(std::time::Duration::from_secs(60), h).await { Ok(Ok(r)) => r, Ok(Err(e)) => Err(format!("JOIN/PANIC {e:?}")), Err(_) => Err("TIMEOUT".into()) };
    vec![r0, r1]
}

#[tokio::test(flavor = "multi_thread")]
async fn d7_bad_p_eval() {
    let r = run(5, vec![0, 1], circ()).await;
    println!("D7 p_eval=5: {r:?}");
}
#[tokio::test(flavor = "multi_thread")]
async fn d8_dup_p_out() {
    let r = run(0, vec![1, 1], circ()).await;
    println!("D8 p_out=[1,1]: {r:?}");
}
#[tokio::test(flavor = "multi_thread")]
async fn d9_late_input() {
    let c = Circuit {
        input_regs: vec![1, 1],
        insts: vec![
            Inst { out: Reg(0), op: Op::Input(Input { party: 0, input: 0 }) },
            Inst { out: Reg(1), op: Op::And(And(Reg(0), Reg(0))) },
            Inst { out: Reg(2), op: Op::Input(Input { party: 1, input: 0 }) },
        ],
        max_reg_count: 3,
        output_regs: vec![Reg(1)],
        and_ops: 1,
    };
    let r = run(0, vec![0, 1], c).await;
    println!("D9 late input: {r:?}");
}
#[tokio::test(flavor = "multi_thread")]
async fn honest_ok() {
    let r = run(0, vec![0, 1], circ()).await;
    println!("honest: {r:?}");
}
#[tokio::test(flavor = "multi_thread")]
async fn d11_zero_regs() {
    let c = Circuit {
        input_regs: vec![1, 1],
        insts: vec![],
        max_reg_count: 0,
        output_regs: vec![Reg(0)],
        and_ops: 0,
    };
    let r = run(0, vec![0, 1], c).await;
    println!("D11 zero regs: {r:?}");
}
