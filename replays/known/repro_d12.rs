use polytune::{channel::SimpleChannel, garble_lang::register_circuit::*, mpc};

#[tokio::test(flavor = "multi_thread")]
async fn d12_output_register_never_written() {
    let c = Circuit {
        input_regs: vec![1, 1],
        insts: vec![
            Inst { out: Reg(0), op: Op::Input(Input { party: 0, input: 0 }) },
            Inst { out: Reg(1), op: Op::Input(Input { party: 1, input: 0 }) },
        ],
        max_reg_count: 3,
        output_regs: vec![Reg(2)],
        and_ops: 0,
    };
    let mut chans = SimpleChannel::channels(2);
    let c1 = chans.pop().unwrap();
    let c0 = chans.pop().unwrap();
    let ca = c.clone();
    let h0 = tokio::spawn(async move { mpc(&c0, &ca, &[true], 0, 0, &[0, 1], None).await.map_err(|e| format!("{e:?}")) });
    let h1 = tokio::spawn(async move { mpc(&c1, &c, &[true], 0, 1, &[0, 1], None).await.map_err(|e| format!("{e:?}")) });
    let mut out = vec![];
    for h in [h0, h1] {
        out.push(match tokio::time::timeout(std::time::Duration::from_secs(120), h).await {
            Ok(Ok(r)) => format!("{r:?}"), Ok(Err(e)) => format!("PANIC={}", e.is_panic()), Err(_) => "TIMEOUT".into() });
    }
    println!("D12: {out:?}");
    assert!(out.iter().all(|r| !r.starts_with("PANIC")), "{out:?}");
}
