use polytune::{channel::{Channel, SimpleChannel}, garble_lang::register_circuit::*, mpc};

struct Mal { inner: SimpleChannel, regs: usize }
impl Channel for Mal {
    type SendError = <SimpleChannel as Channel>::SendError;
    type RecvError = <SimpleChannel as Channel>::RecvError;
    async fn send_bytes_to(&self, p: usize, mut data: Vec<u8>, phase: &str) -> Result<(), Self::SendError> {
        if phase == "masked inputs" {
            let mut v: Vec<Option<bool>> = bincode::serde::decode_from_slice(&data, bincode::config::legacy()).unwrap().0;
            assert_eq!(v.len(), self.regs);
            v[2] = Some(true); // announce a "masked input" for register 2, which is not an input wire
            data = bincode::serde::encode_to_vec(&v, bincode::config::legacy()).unwrap();
        }
        self.inner.send_bytes_to(p, data, phase).await
    }
    async fn recv_bytes_from(&self, p: usize, phase: &str) -> Result<Vec<u8>, Self::RecvError> {
        self.inner.recv_bytes_from(p, phase).await
    }
}

fn circ_and() -> Circuit {
    Circuit {
        input_regs: vec![1, 1],
        insts: vec![
            Inst { out: Reg(0), op: Op::Input(Input { party: 0, input: 0 }) },
            Inst { out: Reg(1), op: Op::Input(Input { party: 1, input: 0 }) },
            Inst { out: Reg(2), op: Op::And(And(Reg(0), Reg(1))) },
        ],
        max_reg_count: 3,
        output_regs: vec![Reg(2)],
        and_ops: 1,
    }
}

#[tokio::test(flavor = "multi_thread")]
async fn d13_masked_input_for_non_input_wire() {
    let c = circ_and();
    let mut chans = SimpleChannel::channels(2);
    let c1 = chans.pop().unwrap();
    let c0 = Mal { inner: chans.pop().unwrap(), regs: c.max_reg_count };
    let ca = c.clone();
    // party 0 = corrupted evaluator, party 1 = honest garbler
    let h0 = tokio::spawn(async move { mpc(&c0, &ca, &[true], 0, 0, &[0, 1], None).await.map_err(|e| format!("{e:?}")) });
    let h1 = tokio::spawn(async move { mpc(&c1, &c, &[true], 0, 1, &[0, 1], None).await.map_err(|e| format!("{e:?}")) });
    let r1 = match tokio::time::timeout(std::time::Duration::from_secs(120), h1).await {
        Ok(Ok(r)) => format!("{r:?}"), Ok(Err(e)) => format!("PANIC={}", e.is_panic()), Err(_) => "TIMEOUT".into() };
    h0.abort();
    println!("D13 honest garbler: {r1}");
    assert!(!r1.starts_with("PANIC"), "honest garbler panicked: {r1}");
}
