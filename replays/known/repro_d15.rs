use polytune::{channel::SimpleChannel, garble_lang::register_circuit::*, mpc};

#[tokio::test(flavor = "multi_thread")]
async fn d15_zero_registers_with_instruction() {
    let c = Circuit {
        input_regs: vec![1, 1],
        insts: vec![Inst { out: Reg(0), op: Op::Input(Input { party: 0, input: 0 }) }],
        max_reg_count: 0,
        output_regs: vec![Reg(0)],
        and_ops: 0,
    };
    let mut chans = SimpleChannel::channels(2);
    let _c1 = chans.pop().unwrap();
    let c0 = chans.pop().unwrap();
    let h0 = tokio::spawn(async move { mpc(&c0, &c, &[true], 0, 0, &[0, 1], None).await.map_err(|e| format!("{e:?}")) });
    let r = match tokio::time::timeout(std::time::Duration::from_secs(60), h0).await {
        Ok(Ok(r)) => format!("{r:?}"), Ok(Err(e)) => format!("PANIC={}", e.is_panic()), Err(_) => "TIMEOUT".into() };
    println!("D15: {r}");
    assert!(!r.starts_with("PANIC"), "{r}");
}
