use polytune::{channel::{Channel, SimpleChannel}, garble_lang::register_circuit::*, mpc};

struct Mal { inner: SimpleChannel, mode: u8, regs: usize }
impl Channel for Mal {
    type SendError = <SimpleChannel as Channel>::SendError;
    type RecvError = <SimpleChannel as Channel>::RecvError;
    async fn send_bytes_to(&self, p: usize, mut data: Vec<u8>, phase: &str) -> Result<(), Self::SendError> {
        if self.mode == 1 && phase == "output wire shares" {
            let v: Vec<Option<(bool, u128)>> = vec![None; self.regs];
            data = bincode::serde::encode_to_vec(&v, bincode::config::legacy()).unwrap();
        }
        if self.mode == 3 && phase == "preprocessed gates" {
            let n = data.len();
            data[n - 1] ^= 1;
        }
        self.inner.send_bytes_to(p, data, phase).await
    }
    async fn recv_bytes_from(&self, p: usize, phase: &str) -> Result<Vec<u8>, Self::RecvError> {
        self.inner.recv_bytes_from(p, phase).await
    }
}

fn circ_and() -> Circuit {
    Circuit {
        input_regs: vec![1, 1],
        insts: vec![
            Inst { out: Reg(0), op: Op::Input(Input { party: 0, input: 0 }) },
            Inst { out: Reg(1), op: Op::Input(Input { party: 1, input: 0 }) },
            Inst { out: Reg(0), op: Op::And(And(Reg(0), Reg(1))) },
        ],
        max_reg_count: 2,
        output_regs: vec![Reg(0)],
        and_ops: 1,
    }
}

async fn run(mode: u8) -> (Result<Vec<bool>, String>, String) {
    let c = circ_and();
    let mut chans = SimpleChannel::channels(2);
    let c1 = Mal { inner: chans.pop().unwrap(), mode, regs: c.max_reg_count };
    let c0 = chans.pop().unwrap();
    let ca = c.clone();
    // party 1 is the corrupted garbler; party 0 honest evaluator and output party. inputs: 1 & 1 = 1
    let h = tokio::spawn(async move { mpc(&c1, &ca, &[true], 0, 1, &[0], None).await.map_err(|e| format!("{e:?}")) });
    let h0 = tokio::spawn(async move { mpc(&c0, &c, &[true], 0, 0, &[0], None).await.map_err(|e| format!("{e:?}")) });
    let r0 = match tokio::time::timeout(std::time::Duration::from_secs(60), h0).await { Ok(Ok(r)) => r, Ok(Err(e)) => Err(format!("PANIC {}", e.is_panic())), Err(_) => Err("TIMEOUT".into()) };
    let r1 = format!("{:?}", tokio::time::timeout(std::time::Duration::from_secs(5), h).await.map(|r| r.map_err(|e| e.is_panic())));
    (r0, r1)
}

#[tokio::test(flavor = "multi_thread")]
async fn d1_omitted_output_share() {
    let mut wrong = 0; let mut ok = 0; let mut err = 0;
    for _ in 0..24 {
        match run(1).await.0 { Ok(v) if v == vec![true] => ok += 1, Ok(_) => wrong += 1, Err(_) => err += 1 }
    }
    println!("D1 omitted share, true output is [true]: correct={ok} WRONG_ACCEPTED={wrong} err={err}");
}
#[tokio::test(flavor = "multi_thread")]
async fn d3_corrupt_row() {
    let r = run(3).await;
    println!("D3 corrupted garbled row: honest evaluator -> {:?}", r.0);
}
