use polytune::{channel::{Channel, SimpleChannel}, garble_lang::register_circuit::*, mpc};

struct Mal { inner: SimpleChannel }
impl Channel for Mal {
    type SendError = <SimpleChannel as Channel>::SendError;
    type RecvError = <SimpleChannel as Channel>::RecvError;
    async fn send_bytes_to(&self, p: usize, mut data: Vec<u8>, phase: &str) -> Result<(), Self::SendError> {
        if phase == "fashare ver" {
            let (dm, _): (Vec<Vec<u8>>, usize) = bincode::serde::decode_from_slice(&data, bincode::config::legacy()).unwrap();
            // right outer length, empty inner vectors
            let empty: Vec<Vec<u8>> = dm.iter().map(|_| vec![]).collect();
            data = bincode::serde::encode_to_vec(&empty, bincode::config::legacy()).unwrap();
        }
        self.inner.send_bytes_to(p, data, phase).await
    }
    async fn recv_bytes_from(&self, p: usize, phase: &str) -> Result<Vec<u8>, Self::RecvError> {
        self.inner.recv_bytes_from(p, phase).await
    }
}

#[tokio::test(flavor = "multi_thread")]
async fn d4_empty_inner_dm() {
    let c = Circuit {
        input_regs: vec![1, 1],
        insts: vec![
            Inst { out: Reg(0), op: Op::Input(Input { party: 0, input: 0 }) },
            Inst { out: Reg(1), op: Op::Input(Input { party: 1, input: 0 }) },
            Inst { out: Reg(0), op: Op::Xor(Xor(Reg(0), Reg(1))) },
        ],
        max_reg_count: 2, output_regs: vec![Reg(0)], and_ops: 0,
    };
    let mut chans = SimpleChannel::channels(2);
    let c1 = Mal { inner: chans.pop().unwrap() };
    let c0 = chans.pop().unwrap();
    let ca = c.clone();
    let h1 = tokio::spawn(async move { mpc(&c1, &ca, &[true], 0, 1, &[0, 1], None).await.map_err(|e| format!("{e:?}")) });
    let h0 = tokio::spawn(async move { mpc(&c0, &c, &[true], 0, 0, &[0, 1], None).await.map_err(|e| format!("{e:?}")) });
    let r0 = match tokio::time::timeout(std::time::Duration::from_secs(60), h0).await {
        Ok(Ok(r)) => format!("{r:?}"), Ok(Err(e)) => format!("PANIC={}", e.is_panic()), Err(_) => "TIMEOUT".into() };
    h1.abort();
    println!("D4 honest party 0: {r0}");
    assert!(!r0.starts_with("PANIC"), "{r0}");
}
