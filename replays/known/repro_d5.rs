use std::sync::Mutex;
use polytune::{channel::{Channel, SimpleChannel}, garble_lang::register_circuit::*, mpc};

struct Mal { inner: SimpleChannel, macs: Mutex<Option<Vec<u128>>>, done: Mutex<bool>, out: Mutex<Vec<String>> }
impl Channel for Mal {
    type SendError = <SimpleChannel as Channel>::SendError;
    type RecvError = <SimpleChannel as Channel>::RecvError;
    async fn send_bytes_to(&self, p: usize, mut data: Vec<u8>, phase: &str) -> Result<(), Self::SendError> {
        if phase == "fashare ver" && self.macs.lock().unwrap().is_none() {
            let (mut dm, _): (Vec<Vec<u8>>, usize) = bincode::serde::decode_from_slice(&data, bincode::config::legacy()).unwrap();
            let macs: Vec<u128> = dm.iter().map(|d| u128::from_be_bytes(d[1..17].try_into().unwrap())).collect();
            *self.macs.lock().unwrap() = Some(macs);
            // lie about the check bit of objects 0 and 1, leave the others alone
            dm[0][0] ^= 1;
            dm[1][0] ^= 1;
            data = bincode::serde::encode_to_vec(&dm, bincode::config::legacy()).unwrap();
        }
        self.inner.send_bytes_to(p, data, phase).await
    }
    async fn recv_bytes_from(&self, p: usize, phase: &str) -> Result<Vec<u8>, Self::RecvError> {
        let data = self.inner.recv_bytes_from(p, phase).await?;
        if phase == "fashare di_bi" && !*self.done.lock().unwrap() {
            *self.done.lock().unwrap() = true;
            let (d, _): (Vec<u128>, usize) = bincode::serde::decode_from_slice(&data, bincode::config::legacy()).unwrap();
            let macs = self.macs.lock().unwrap().clone().unwrap();
            let mut o = self.out.lock().unwrap();
            for r in 0..4 { o.push(format!("r={r}: opened ^ my_mac = {:032x}", d[r] ^ macs[r])); }
        }
        Ok(data)
    }
}

#[tokio::test(flavor = "multi_thread")]
async fn d5_lied_check_bit() {
    let c = Circuit {
        input_regs: vec![1, 1],
        insts: vec![
            Inst { out: Reg(0), op: Op::Input(Input { party: 0, input: 0 }) },
            Inst { out: Reg(1), op: Op::Input(Input { party: 1, input: 0 }) },
            Inst { out: Reg(0), op: Op::Xor(Xor(Reg(0), Reg(1))) },
        ],
        max_reg_count: 2, output_regs: vec![Reg(0)], and_ops: 0,
    };
    let mut chans = SimpleChannel::channels(2);
    let c1 = std::sync::Arc::new(Mal { inner: chans.pop().unwrap(), macs: Mutex::new(None), done: Mutex::new(false), out: Mutex::new(vec![]) });
    let c0 = chans.pop().unwrap();
    let ca = c.clone();
    let c1b = c1.clone();
    let h1 = tokio::spawn(async move { mpc(&*c1b, &ca, &[true], 0, 1, &[0, 1], None).await.map_err(|e| format!("{e:?}")) });
    let h0 = tokio::spawn(async move { mpc(&c0, &c, &[true], 0, 0, &[0, 1], None).await.map_err(|e| format!("{e:?}")) });
    let r1 = tokio::time::timeout(std::time::Duration::from_secs(30), h1).await;
    let r0 = tokio::time::timeout(std::time::Duration::from_secs(30), h0).await;
    for l in c1.out.lock().unwrap().iter() { println!("D5 {l}"); }
    println!("D5 honest party 0: {:?}", r0.map(|r| r.map_err(|e| e.is_panic())));
    println!("D5 lying party 1 (real code behind the lying channel): {:?}", r1.map(|r| r.map_err(|e| e.is_panic())));
}
