use vstd::prelude::*;
use crate::mpc::data_types::*;
use std::ops::{BitAnd, BitXor};
use vstd::std_specs::ops::{BitXorSpecImpl, BitAndSpecImpl};
use vstd::std_specs::cmp::PartialEqSpecImpl;

verus! {

// ---------------------------------------------------------------- the crate's own data types
// (transparent: fields are pub(crate), so the verifier sees the real representation)
#[verifier::external_type_specification]
pub struct ExMac(Mac);
#[verifier::external_type_specification]
pub struct ExKey(Key);
#[verifier::external_type_specification]
pub struct ExDelta(Delta);
#[verifier::external_type_specification]
pub struct ExLabel(Label);
#[verifier::external_type_specification]
pub struct ExAuth(Auth);
#[verifier::external_type_specification]
pub struct ExShare(Share);

#[verifier::external_type_specification]
pub struct ExChanErrorKind(crate::channel::ErrorKind);
#[verifier::external_type_specification]
pub struct ExChanError(crate::channel::Error);
#[verifier::external_type_specification]
pub struct ExFaandError(crate::mpc::faand::Error);

// ---------------------------------------------------------------- mathematical definitions (DESIGN §4)
pub open spec fn dmask(b: bool, d: u128) -> u128 { if b { d } else { 0 } }

/// IT-MAC relation: mac = key ^ bit*delta
pub open(crate) spec fn mac_ok(m: Mac, k: Key, b: bool, d: Delta) -> bool { m.0 == k.0 ^ dmask(b, d.0) }

pub open spec fn bxor3(a: bool, b: bool, c: bool) -> bool { a ^ b ^ c }

pub open spec fn min_nat(a: nat, b: nat) -> nat { if a <= b { a } else { b } }

/// view-level XOR of two (mac,key) vectors, truncated to the shorter (what `zip` does)
pub open(crate) spec fn xor_mk(a: Seq<(Mac, Key)>, b: Seq<(Mac, Key)>) -> Seq<(Mac, Key)> {
    Seq::new(min_nat(a.len(), b.len()), |k: int| (Mac(a[k].0.0 ^ b[k].0.0), Key(a[k].1.0 ^ b[k].1.0)))
}

/// accessors usable in the contracts of *public* (trait) functions
pub open(crate) spec fn auth_seq(a: Auth) -> Seq<(Mac, Key)> { a.0@ }
pub open(crate) spec fn share_bit(s: Share) -> bool { s.0 }
pub open(crate) spec fn share_seq(s: Share) -> Seq<(Mac, Key)> { s.1.0@ }

/// XOR of the first `upto` keys of a (mac,key) vector
pub open(crate) spec fn xor_keys_spec(a: Seq<(Mac, Key)>, upto: int) -> u128
    decreases upto
{
    if upto <= 0 { 0u128 } else { xor_keys_spec(a, upto - 1) ^ a[upto - 1].1.0 }
}

/// `r` is the share-wise XOR of `a` and `b`
pub open(crate) spec fn is_xor_share(a: Share, b: Share, r: Share) -> bool {
    r.0 == (a.0 ^ b.0) && r.1.0@ =~= xor_mk(a.1.0@, b.1.0@)
}

// ---------------------------------------------------------------- operator specifications.
// The executable impls in src/mpc/data_types.rs are verified *against* these (they are wrapped in
// verus!{} by the unit `data_types`), so none of this is trusted.
impl BitXorSpecImpl<Mac> for Mac {
    open(crate) spec fn obeys_bitxor_spec() -> bool { true }
    open(crate) spec fn bitxor_req(self, rhs: Mac) -> bool { true }
    open(crate) spec fn bitxor_spec(self, rhs: Mac) -> Mac { Mac(self.0 ^ rhs.0) }
}
impl BitXorSpecImpl<Delta> for Mac {
    open(crate) spec fn obeys_bitxor_spec() -> bool { true }
    open(crate) spec fn bitxor_req(self, rhs: Delta) -> bool { true }
    open(crate) spec fn bitxor_spec(self, rhs: Delta) -> Key { Key(self.0 ^ rhs.0) }
}
impl BitXorSpecImpl<Key> for Key {
    open(crate) spec fn obeys_bitxor_spec() -> bool { true }
    open(crate) spec fn bitxor_req(self, rhs: Key) -> bool { true }
    open(crate) spec fn bitxor_spec(self, rhs: Key) -> Key { Key(self.0 ^ rhs.0) }
}
impl BitXorSpecImpl<Delta> for Key {
    open(crate) spec fn obeys_bitxor_spec() -> bool { true }
    open(crate) spec fn bitxor_req(self, rhs: Delta) -> bool { true }
    open(crate) spec fn bitxor_spec(self, rhs: Delta) -> Mac { Mac(self.0 ^ rhs.0) }
}
impl BitXorSpecImpl<Label> for Label {
    open(crate) spec fn obeys_bitxor_spec() -> bool { true }
    open(crate) spec fn bitxor_req(self, rhs: Label) -> bool { true }
    open(crate) spec fn bitxor_spec(self, rhs: Label) -> Label { Label(self.0 ^ rhs.0) }
}
impl BitXorSpecImpl<Delta> for Label {
    open(crate) spec fn obeys_bitxor_spec() -> bool { true }
    open(crate) spec fn bitxor_req(self, rhs: Delta) -> bool { true }
    open(crate) spec fn bitxor_spec(self, rhs: Delta) -> Label { Label(self.0 ^ rhs.0) }
}
impl BitXorSpecImpl<Mac> for Label {
    open(crate) spec fn obeys_bitxor_spec() -> bool { true }
    open(crate) spec fn bitxor_req(self, rhs: Mac) -> bool { true }
    open(crate) spec fn bitxor_spec(self, rhs: Mac) -> Label { Label(self.0 ^ rhs.0) }
}
impl BitXorSpecImpl<Key> for Label {
    open(crate) spec fn obeys_bitxor_spec() -> bool { true }
    open(crate) spec fn bitxor_req(self, rhs: Key) -> bool { true }
    open(crate) spec fn bitxor_spec(self, rhs: Key) -> Label { Label(self.0 ^ rhs.0) }
}
impl BitAndSpecImpl<Delta> for bool {
    open(crate) spec fn obeys_bitand_spec() -> bool { true }
    open(crate) spec fn bitand_req(self, rhs: Delta) -> bool { true }
    open(crate) spec fn bitand_spec(self, rhs: Delta) -> Delta { Delta(dmask(self, rhs.0)) }
}
// `#[derive(PartialEq)]` on plain data is structural equality (trusted: derive semantics)
impl PartialEqSpecImpl for Mac {
    open(crate) spec fn obeys_eq_spec() -> bool { true }
    open(crate) spec fn eq_spec(&self, other: &Mac) -> bool { *self == *other }
}
impl PartialEqSpecImpl for Key {
    open(crate) spec fn obeys_eq_spec() -> bool { true }
    open(crate) spec fn eq_spec(&self, other: &Key) -> bool { *self == *other }
}
impl PartialEqSpecImpl for Label {
    open(crate) spec fn obeys_eq_spec() -> bool { true }
    open(crate) spec fn eq_spec(&self, other: &Label) -> bool { *self == *other }
}
impl PartialEqSpecImpl for Delta {
    open(crate) spec fn obeys_eq_spec() -> bool { true }
    open(crate) spec fn eq_spec(&self, other: &Delta) -> bool { *self == *other }
}
pub assume_specification[ <Mac as PartialEq>::eq ](a: &Mac, b: &Mac) -> (r: bool);
pub assume_specification[ <Key as PartialEq>::eq ](a: &Key, b: &Key) -> (r: bool);
pub assume_specification[ <Label as PartialEq>::eq ](a: &Label, b: &Label) -> (r: bool);
pub assume_specification[ <Delta as PartialEq>::eq ](a: &Delta, b: &Delta) -> (r: bool);

// `&Auth ^ &Auth` and `&Share ^ &Share` build a fresh Vec; a Vec has no extensional equality, so
// their functional contract is an `ensures` on the impl (see contracts/data_types.toml), not a
// `bitxor_spec`.
impl<'a> BitXorSpecImpl<&'a Auth> for &'a Auth {
    open(crate) spec fn obeys_bitxor_spec() -> bool { false }
    open(crate) spec fn bitxor_req(self, rhs: &'a Auth) -> bool { true }
    open(crate) spec fn bitxor_spec(self, rhs: &'a Auth) -> Auth { arbitrary() }
}
impl<'a> BitXorSpecImpl<&'a Share> for &'a Share {
    open(crate) spec fn obeys_bitxor_spec() -> bool { false }
    open(crate) spec fn bitxor_req(self, rhs: &'a Share) -> bool { true }
    open(crate) spec fn bitxor_spec(self, rhs: &'a Share) -> Share { arbitrary() }
}

// `#[derive(Clone, Copy)]` on plain data is the identity (trusted: derive semantics)
pub assume_specification[ <Mac as Clone>::clone ](m: &Mac) -> (r: Mac) ensures r == *m;
pub assume_specification[ <Key as Clone>::clone ](m: &Key) -> (r: Key) ensures r == *m;
pub assume_specification[ <Delta as Clone>::clone ](m: &Delta) -> (r: Delta) ensures r == *m;
pub assume_specification[ <Label as Clone>::clone ](m: &Label) -> (r: Label) ensures r == *m;

pub assume_specification[ <Share as Clone>::clone ](m: &Share) -> (r: Share) ensures r == *m;
pub assume_specification[ <Auth as Clone>::clone ](m: &Auth) -> (r: Auth) ensures r == *m;

/// Rule N12 target: `vec![x; n]`. Trusted: std's `from_elem` yields n clones and `Clone` of the
/// plain-data element types used by the engine is the identity.
#[verifier::external_body]
pub fn pv_vec_repeat<T: Clone>(x: T, n: usize) -> (v: Vec<T>)
    ensures v.len() == n, forall|k: int| 0 <= k < n ==> v@[k] == x,
{
    vec![x; n]
}

// ---------------------------------------------------------------- bit-vector facts used everywhere
pub proof fn lemma_mac_xor(m1: u128, k1: u128, b1: bool, m2: u128, k2: u128, b2: bool, d: u128)
    requires m1 == k1 ^ dmask(b1, d), m2 == k2 ^ dmask(b2, d)
    ensures (m1 ^ m2) == (k1 ^ k2) ^ dmask(b1 ^ b2, d)
{
    assert((k1 ^ d) ^ (k2 ^ d) == (k1 ^ k2) ^ 0u128) by(bit_vector);
    assert((k1 ^ d) ^ (k2 ^ 0u128) == (k1 ^ k2) ^ d) by(bit_vector);
    assert((k1 ^ 0u128) ^ (k2 ^ d) == (k1 ^ k2) ^ d) by(bit_vector);
    assert((k1 ^ 0u128) ^ (k2 ^ 0u128) == (k1 ^ k2) ^ 0u128) by(bit_vector);
}
/// trigger carrier for "x ^ 0 == x" facts over a whole vector
pub open spec fn lemma_xor_zero_trig(a: u128) -> bool { a ^ 0u128 == a }
pub proof fn lemma_xor_assoc(a: u128, b: u128, c: u128) ensures (a ^ b) ^ c == a ^ (b ^ c) {
    assert((a ^ b) ^ c == a ^ (b ^ c)) by(bit_vector);
}
pub proof fn lemma_xor_zero(a: u128) ensures a ^ 0u128 == a, 0u128 ^ a == a, a ^ a == 0u128 {
    assert(a ^ 0u128 == a) by(bit_vector);
    assert(0u128 ^ a == a) by(bit_vector);
    assert(a ^ a == 0u128) by(bit_vector);
}

} // verus!
