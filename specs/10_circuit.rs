use garble_lang::register_circuit::{And, Circuit, CircuitError, Input, Inst, Not, Op, Reg, Xor};
use crate::channel::Channel;
use crate::mpc::protocol::{Context, Preprocessor};

verus! {

// ---------------------------------------------------------------- garble_lang's register circuit (pub fields: transparent)
#[verifier::external_type_specification]
pub struct ExReg(Reg);
#[verifier::external_type_specification]
pub struct ExXor(Xor);
#[verifier::external_type_specification]
pub struct ExAnd(And);
#[verifier::external_type_specification]
pub struct ExNot(Not);
#[verifier::external_type_specification]
pub struct ExInput(Input);
#[verifier::external_type_specification]
pub struct ExOp(Op);
#[verifier::external_type_specification]
pub struct ExInst(Inst);
#[verifier::external_type_specification]
pub struct ExCircuit(Circuit);
#[verifier::external_type_specification]
pub struct ExCircuitError(CircuitError);

#[verifier::external_trait_specification]
pub trait ExChannel {
    type ExternalTraitSpecificationFor: Channel;
    type SendError: std::fmt::Debug;
    type RecvError: std::fmt::Debug;
}

// ---------------------------------------------------------------- protocol.rs types
#[verifier::external_type_specification]
#[verifier::external_body]
pub struct ExIoError(std::io::Error);
#[verifier::external_type_specification]
pub struct ExGarbleError(crate::mpc::garble::Error);
#[verifier::external_type_specification]
pub struct ExMpcError(crate::mpc::protocol::MpcError);
#[verifier::external_type_specification]
#[verifier::external_body]
pub struct ExProtoError(crate::mpc::protocol::Error);
#[verifier::external_type_specification]
pub struct ExPreprocessor(Preprocessor);

/// `Context` has private fields and an `Option<&Path>` member: it stays opaque and is observed
/// through `cx(ctx)`; the accessor functions (appended to protocol.rs by unit `protocol_ctx`) tie
/// each real field to the view.
#[verifier::external_type_specification]
#[verifier::external_body]
#[verifier::reject_recursive_types(C)]
pub struct ExContext<'c, C: Channel>(Context<'c, C>);

pub struct CtxView {
    pub circ: Circuit,
    pub inputs: Seq<bool>,
    pub is_contrib: bool,
    pub p_fpre: Preprocessor,
    pub p_eval: usize,
    pub p_own: usize,
    pub p_max: usize,
    pub p_out: Seq<usize>,
    pub num_and_ops: usize,
    pub num_inputs: usize,
}

pub uninterp spec fn cx<C: Channel>(ctx: &Context<'_, C>) -> CtxView;

pub open spec fn sum_usize(s: Seq<usize>) -> int
    decreases s.len()
{
    if s.len() == 0 { 0 } else { sum_usize(s.drop_last()) + s.last() as int }
}

/// what `Context::new` establishes by construction (private fields, single constructor)
pub open spec fn ctx_inv(v: CtxView) -> bool {
    &&& v.is_contrib == (v.p_own != v.p_eval)
    &&& v.p_max == v.circ.input_regs.len()
    &&& v.num_and_ops == v.circ.and_ops
    &&& v.num_inputs as int == sum_usize(v.circ.input_regs@)
}

} // verus!

verus! {
pub const MAX_GATES_SPEC: usize = (u32::MAX >> 4) as usize;

/// `max_reg` of garble_lang's Circuit::validate: Reg(max_reg_count.saturating_sub(1) as u32)
pub open spec fn circ_max_reg(c: Circuit) -> u32 {
    (if c.max_reg_count == 0 { 0usize } else { (c.max_reg_count - 1) as usize }) as u32
}

pub open spec fn op_input_party(op: Op) -> int { match op { Op::Input(i) => i.party as int, _ => -1 } }
pub open spec fn op_input_idx(op: Op) -> int { match op { Op::Input(i) => i.input as int, _ => -1 } }

/// register r is written by an instruction before position w
pub open spec fn written_before(c: Circuit, r: int, w: int) -> bool {
    exists|j: int| 0 <= j < w && j < c.insts.len() && (#[trigger] c.insts@[j]).out.0 == r
}

pub open spec fn op_set_before(c: Circuit, op: Op, w: int) -> bool {
    match op {
        Op::Input(_) => true,
        Op::Xor(Xor(x, y)) => written_before(c, x.0 as int, w) && written_before(c, y.0 as int, w),
        Op::And(And(x, y)) => written_before(c, x.0 as int, w) && written_before(c, y.0 as int, w),
        Op::Not(Not(x)) => written_before(c, x.0 as int, w),
    }
}

pub open spec fn op_regs_ok(c: Circuit, op: Op) -> bool {
    match op {
        Op::Input(_) => true,
        Op::Xor(Xor(x, y)) => x.0 < c.max_reg_count && y.0 < c.max_reg_count,
        Op::And(And(x, y)) => x.0 < c.max_reg_count && y.0 < c.max_reg_count,
        Op::Not(Not(x)) => x.0 < c.max_reg_count,
    }
}

/// Postcondition assumed for garble_lang's `Circuit::validate` (A8), read off its source
/// (register_circuit.rs:119-175): some party has an input; outputs non-empty and each <= max_reg;
/// every instruction's destination and operands index the register file without panicking
/// (`register_set[x]`, `register_set[inst.out] = true` with `register_set.len() == max_reg_count`),
/// an Input instruction at position i writes register i; every operand register has been written by an
/// earlier instruction (`register_set[x]`).
pub open spec fn circ_validated(c: Circuit) -> bool {
    &&& exists|p: int| 0 <= p < c.input_regs.len() && c.input_regs@[p] != 0
    &&& c.output_regs.len() > 0
    &&& forall|k: int| 0 <= k < c.output_regs.len() ==> (#[trigger] c.output_regs@[k]).0 <= circ_max_reg(c)
    &&& forall|w: int| 0 <= w < c.insts.len() ==> {
            &&& (#[trigger] c.insts@[w]).out.0 < c.max_reg_count
            &&& op_regs_ok(c, c.insts@[w].op)
            &&& (c.insts@[w].op is Input ==> c.insts@[w].out.0 == w)
            &&& op_set_before(c, c.insts@[w].op, w)
        }
}

pub assume_specification[ Circuit::validate ](c: &Circuit) -> (r: Result<(), CircuitError>)
    ensures r is Ok ==> circ_validated(*c);
} // verus!
