verus! {
// ---------------------------------------------------------------- std items vstd does not specify (A7)
pub assume_specification<T: Copy>[ Option::<&T>::copied ](o: Option<&T>) -> (r: Option<T>)
    ensures o is None ==> r is None, o is Some ==> r == Some(*o->Some_0);

pub assume_specification<T>[ Option::<Option<T>>::flatten ](o: Option<Option<T>>) -> (r: Option<T>)
    ensures o is None ==> r is None, o is Some ==> r == o->Some_0;

pub assume_specification<T: PartialEq>[ <[T]>::contains ](s: &[T], x: &T) -> (r: bool)
    ensures r == s@.contains(*x);   // used at T = usize only (structural equality)

/// N17 target: `a == b` on Option / tuples of plain data (derived, structural PartialEq — trusted)
#[verifier::external_body]
pub fn pv_eq<T: PartialEq>(a: &T, b: &T) -> (r: bool)
    ensures r == (*a == *b),
{ a == b }

/// F3 helper for `output()`: the set of output registers as a sorted, duplicate-free vector.
/// Trusted: BTreeSet semantics (body is the original `iter().copied().collect()` into a BTreeSet).
#[verifier::external_body]
pub fn pv_uniq_regs(regs: &Vec<garble_lang::register_circuit::Reg>) -> (v: Vec<garble_lang::register_circuit::Reg>)
    ensures
        forall|k: int| 0 <= k < v.len() ==> regs@.contains(#[trigger] v@[k]),
        forall|k: int| 0 <= k < regs.len() ==> v@.contains(#[trigger] regs@[k]),
        forall|a: int, b: int| 0 <= a < b < v.len() ==> v@[a].0 < v@[b].0,
{
    let s: std::collections::BTreeSet<garble_lang::register_circuit::Reg> = regs.iter().copied().collect();
    s.into_iter().collect()
}
} // verus!

verus! {
pub assume_specification[ crate::mpc::data_types::Auth::macs ](a: &crate::mpc::data_types::Auth) -> (r: Vec<crate::mpc::data_types::Mac>)
    ensures r.len() == a.0.len(), forall|k: int| 0 <= k < r.len() ==> r@[k] == a.0@[k].0;
} // verus!

verus! {
/// F3 helper: phase-label concatenation
#[verifier::external_body]
pub fn pv_concat(a: &str, b: &str) -> (r: String) { a.to_owned() + b }

/// F3 helper for broadcast_first_scatter_second: project a Vec<Vec<(T, S)>> to its first components
#[verifier::external_body]
pub fn pv_firsts<T: Clone, S>(v: &Vec<Vec<(T, S)>>) -> (r: Vec<Vec<T>>)
    ensures r.len() == v.len(), forall|k: int| 0 <= k < r.len() ==> (#[trigger] r@[k]).len() == v@[k].len(),
{
    v.iter().map(|inner_vec| inner_vec.iter().map(|(a, _)| a.clone()).collect()).collect()
}
} // verus!

verus! {
pub assume_specification<T, U, F: FnOnce(T) -> U>[ Option::<T>::map_or ](o: Option<T>, default: U, f: F) -> (r: U)
    requires o is Some ==> f.requires((o->Some_0,)),
    ensures o is None ==> r == default, o is Some ==> f.ensures((o->Some_0,), r);
} // verus!

verus! {
/// `a.min(b)` for the index-loop forms of zip / take (verified, not trusted)
pub fn pv_min_usize(a: usize, b: usize) -> (r: usize) ensures r == (if a <= b { a } else { b }) { if a <= b { a } else { b } }
} // verus!

verus! {
pub assume_specification<T>[ core::mem::drop::<T> ](x: T);
} // verus!
