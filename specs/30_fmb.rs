use crate::utils::file_or_mem_buf::{FileOrMemBuf, Iter as FmbIter, ChunkIter as FmbChunkIter};
use crate::mpc::data_types::GarbledGate;

verus! {
// ---------------------------------------------------------------- FileOrMemBuf: trusted model (C19)
// Both variants are observed through one abstract view: the sequence of items written so far.
// The file variant (BufWriter<Arc<File>> / BufReader sharing one OS offset, bincode framing) is
// std / bincode code and cannot be brought under the verifier; these specifications are the
// *assumed* interface the callers are verified against. They are listed in every trusted_base.
#[verifier::external_type_specification]
#[verifier::external_body]
#[verifier::accept_recursive_types(T)]
pub struct ExFileOrMemBuf<T>(FileOrMemBuf<T>);
#[verifier::external_type_specification]
#[verifier::external_body]
#[verifier::accept_recursive_types(T)]
pub struct ExFmbIter<'a, T>(FmbIter<'a, T>);
#[verifier::external_type_specification]
#[verifier::external_body]
pub struct ExDecodeError(bincode::error::DecodeError);
#[verifier::external_type_specification]
#[verifier::external_body]
pub struct ExEncodeError(bincode::error::EncodeError);
#[verifier::external_type_specification]
pub struct ExGarbledGate(GarbledGate);

pub uninterp spec fn fmb_items<T>(b: FileOrMemBuf<T>) -> Seq<T>;
/// items an iterator will yield, and how many it has yielded
pub uninterp spec fn fmbit_items<T>(it: FmbIter<'_, T>) -> Seq<T>;
pub uninterp spec fn fmbit_pos<T>(it: FmbIter<'_, T>) -> int;

/// `Iter::next` (trusted model): yields the items in order; `None` only at the end; a file-backed
/// iterator may also yield `Some(Err(_))` (I/O or decoding error) at any point.
#[verifier::external_body]
pub fn fmb_next<T: serde::de::DeserializeOwned + Clone>(it: &mut FmbIter<'_, T>) -> (r: Option<Result<T, bincode::error::DecodeError>>)
    ensures
        fmbit_items(*final(it)) == fmbit_items(*old(it)),
        r is None ==> fmbit_pos(*old(it)) >= fmbit_items(*old(it)).len() && fmbit_pos(*final(it)) == fmbit_pos(*old(it)),
        r is Some && r->Some_0 is Ok ==> 0 <= fmbit_pos(*old(it)) < fmbit_items(*old(it)).len()
            && r->Some_0->Ok_0 == fmbit_items(*old(it))[fmbit_pos(*old(it))]
            && fmbit_pos(*final(it)) == fmbit_pos(*old(it)) + 1,
{
    it.next()
}
} // verus!

verus! {
pub assume_specification<T>[ FileOrMemBuf::<T>::iter ](b: &mut FileOrMemBuf<T>) -> (r: std::io::Result<FmbIter<'_, T>>)
    ensures
        fmb_items(*final(b)) == fmb_items(*old(b)),
        r is Ok ==> fmbit_items(r->Ok_0) == fmb_items(*old(b)) && fmbit_pos(r->Ok_0) == 0;

/// F3 helper for `garble_files.iter_mut().map(|file| file.iter()).collect::<io::Result<_>>()?`
#[verifier::external_body]
pub fn pv_gate_iters<'a>(files: &'a mut Vec<FileOrMemBuf<GarbledGate>>) -> (r: std::io::Result<Vec<FmbIter<'a, GarbledGate>>>)
    ensures r is Ok ==> r->Ok_0.len() == old(files).len(),
{
    files.iter_mut().map(|file| file.iter()).collect::<std::io::Result<_>>()
}

/// `v[k].next()` on a vector of iterators (Verus has no `&mut v[k]`)
#[verifier::external_body]
pub fn fmb_next_at<T: serde::de::DeserializeOwned + Clone>(v: &mut Vec<FmbIter<'_, T>>, k: usize) -> (r: Option<Result<T, bincode::error::DecodeError>>)
    requires k < old(v).len(),
    ensures final(v).len() == old(v).len(),
{
    v[k].next()
}
} // verus!
