use crate::utils::file_or_mem_buf::{FileOrMemBuf, Iter as FmbIter, ChunkIter as FmbChunkIter};
use crate::mpc::data_types::GarbledGate;

verus! {
// ---------------------------------------------------------------- FileOrMemBuf: trusted model (C19)
// Both variants are observed through one abstract view: the sequence of items written so far.
// The file variant (BufWriter<Arc<File>> / BufReader sharing one OS offset, bincode framing) is
// std / bincode code and cannot be brought under the verifier; these specifications are the
// *assumed* interface the callers are verified against. They are listed in every trusted_base.
#[verifier::external_type_specification]
#[verifier::external_body]
#[verifier::accept_recursive_types(T)]
pub struct ExFileOrMemBuf<T>(FileOrMemBuf<T>);
#[verifier::external_type_specification]
#[verifier::external_body]
#[verifier::accept_recursive_types(T)]
pub struct ExFmbIter<'a, T>(FmbIter<'a, T>);
#[verifier::external_type_specification]
#[verifier::external_body]
pub struct ExDecodeError(bincode::error::DecodeError);
#[verifier::external_type_specification]
#[verifier::external_body]
pub struct ExEncodeError(bincode::error::EncodeError);
#[verifier::external_type_specification]
pub struct ExGarbledGate(GarbledGate);

pub uninterp spec fn fmb_items<T>(b: FileOrMemBuf<T>) -> Seq<T>;
/// items an iterator will yield, and how many it has yielded
pub uninterp spec fn fmbit_items<T>(it: FmbIter<'_, T>) -> Seq<T>;
pub uninterp spec fn fmbit_pos<T>(it: FmbIter<'_, T>) -> int;

/// `Iter::next` (trusted model): yields the items in order; `None` only at the end; a file-backed
/// iterator may also yield `Some(Err(_))` (I/O or decoding error) at any point.
#[verifier::external_body]
pub fn fmb_next<T: serde::de::DeserializeOwned + Clone>(it: &mut FmbIter<'_, T>) -> (r: Option<Result<T, bincode::error::DecodeError>>)
    ensures
        fmbit_items(*final(it)) == fmbit_items(*old(it)),
        r is None ==> fmbit_pos(*old(it)) >= fmbit_items(*old(it)).len() && fmbit_pos(*final(it)) == fmbit_pos(*old(it)),
        r is Some && r->Some_0 is Ok ==> 0 <= fmbit_pos(*old(it)) < fmbit_items(*old(it)).len()
            && r->Some_0->Ok_0 == fmbit_items(*old(it))[fmbit_pos(*old(it))]
            && fmbit_pos(*final(it)) == fmbit_pos(*old(it)) + 1,
{
    it.next()
}
} // verus!

verus! {
pub assume_specification<T>[ FileOrMemBuf::<T>::iter ](b: &mut FileOrMemBuf<T>) -> (r: std::io::Result<FmbIter<'_, T>>)
    ensures
        fmb_items(*final(b)) == fmb_items(*old(b)),
        r is Ok ==> fmbit_items(r->Ok_0) == fmb_items(*old(b)) && fmbit_pos(r->Ok_0) == 0;

/// F3 helper for `garble_files.iter_mut().map(|file| file.iter()).collect::<io::Result<_>>()?`
#[verifier::external_body]
pub fn pv_gate_iters<'a>(files: &'a mut Vec<FileOrMemBuf<GarbledGate>>) -> (r: std::io::Result<Vec<FmbIter<'a, GarbledGate>>>)
    ensures r is Ok ==> r->Ok_0.len() == old(files).len(),
{
    files.iter_mut().map(|file| file.iter()).collect::<std::io::Result<_>>()
}

/// `v[k].next()` on a vector of iterators (Verus has no `&mut v[k]`)
#[verifier::external_body]
pub fn fmb_next_at<T: serde::de::DeserializeOwned + Clone>(v: &mut Vec<FmbIter<'_, T>>, k: usize) -> (r: Option<Result<T, bincode::error::DecodeError>>)
    requires k < old(v).len(),
    ensures final(v).len() == old(v).len(),
{
    v[k].next()
}
} // verus!

verus! {
/// chunk boundaries recorded by the file variant (lengths of the chunks appended so far); the memory
/// variant re-chunks on read, so the two agree iff every append but the last has the read chunk size (C19)
pub uninterp spec fn fmb_cuts<T>(b: FileOrMemBuf<T>) -> Seq<nat>;

pub assume_specification<T: serde::Serialize + Clone>[ FileOrMemBuf::<T>::write_chunk ](b: &mut FileOrMemBuf<T>, chunk: &[T]) -> (r: Result<(), bincode::error::EncodeError>)
    ensures
        r is Ok ==> fmb_items(*final(b)) == fmb_items(*old(b)) + chunk@,
        r is Ok ==> fmb_cuts(*final(b)) == fmb_cuts(*old(b)).push(chunk@.len());

pub open spec fn sum_nat(s: Seq<nat>) -> nat decreases s.len() { if s.len() == 0 { 0 } else { sum_nat(s.drop_last()) + s.last() } }

/// C19 call-site discipline: all chunks but the last have exactly size k, the last one is non-empty and <= k
pub open spec fn chunked_by(cuts: Seq<nat>, k: nat) -> bool {
    &&& forall|q: int| 0 <= q < cuts.len() - 1 ==> #[trigger] cuts[q] == k
    &&& (cuts.len() > 0 ==> 0 < cuts.last() <= k)
}
} // verus!

verus! {
pub open spec fn prefix_sum(c: Seq<nat>, q: int) -> nat decreases q { if q <= 0 { 0 } else { prefix_sum(c, q - 1) + c[q - 1] } }

/// C19: when every append but the last has exactly the read chunk size k, the chunk boundaries the file
/// variant replays (prefix sums of the recorded cuts) are the multiples of k the memory variant re-chunks
/// at — so `chunks(k)` yields the same chunks in both variants.
pub proof fn lemma_chunks_agree(cuts: Seq<nat>, k: nat, q: int)
    requires chunked_by(cuts, k), k > 0, 0 <= q < cuts.len(),
    ensures prefix_sum(cuts, q) == q * k, /*@C19.lemma.file_and_memory_chunk_boundaries_agree*/
    decreases q
{
    if q > 0 {
        lemma_chunks_agree(cuts, k, q - 1);
        assert(cuts[q - 1] == k);
        assert(prefix_sum(cuts, q) == prefix_sum(cuts, q - 1) + cuts[q - 1]);
        assert((q - 1) * k + k == q * k) by(nonlinear_arith);
    } else {
        assert(prefix_sum(cuts, 0) == 0);
        assert(0 * k == 0) by(nonlinear_arith);
    }
}
} // verus!

verus! {
pub assume_specification<T>[ <FileOrMemBuf<T> as core::default::Default>::default ]() -> (r: FileOrMemBuf<T>)
    ensures fmb_items(r).len() == 0, fmb_cuts(r).len() == 0;
} // verus!
