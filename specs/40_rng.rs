verus! {
// ---------------------------------------------------------------- RNGs (opaque). A ghost position view
// lets contracts say "advanced" / "not advanced" (C04 coin reuse); the output distribution is out of reach.
#[verifier::external_type_specification]
#[verifier::external_body]
pub struct ExChaCha20Rng(rand_chacha::ChaCha20Rng);
} // verus!
