verus! {
// ---------------------------------------------------------------- byte encodings and BLAKE3 (uninterpreted)
/// big-endian bytes of a u128 (16 bytes) and its inverse on 16-byte sequences
pub uninterp spec fn be_bytes_spec(x: u128) -> Seq<u8>;
pub uninterp spec fn be_u128_spec(b: Seq<u8>) -> u128;

/// trusted: `u128::to_be_bytes` / `from_be_bytes` are mutually inverse on 16 bytes (std semantics)
pub broadcast axiom fn axiom_be_bytes(x: u128)
    ensures #[trigger] be_bytes_spec(x).len() == 16, be_u128_spec(be_bytes_spec(x)) == x;

/// N18 target for `x.to_be_bytes()` on u128 (the std signature uses an unnameable const generic)
#[verifier::external_body]
pub fn pv_be_bytes(x: u128) -> (r: [u8; 16])
    ensures r@ == be_bytes_spec(x),
{ x.to_be_bytes() }

/// BLAKE3 (A4): an uninterpreted function of the input bytes; commitments compare digests
pub uninterp spec fn blake3_spec(v: Seq<u8>) -> Seq<u8>;

/// position of the MAC for party `me` inside the message of party `sender` (own index is left out)
pub open spec fn dm_pos(me: int, sender: int) -> int { if me > sender { me - 1 } else { me } }

/// the MAC stored at position `pos` of a decommitted message (1 bit byte + 16-byte MACs)
pub open spec fn dm_mac_spec(dm: Seq<u8>, pos: int) -> Option<u128> {
    if pos >= 0 && dm.len() >= 1 + (pos + 1) * 16 { Some(be_u128_spec(dm.subrange(1 + pos * 16, 17 + pos * 16))) } else { None }
}
} // verus!
