verus! {
// ---------------------------------------------------------------- n-party sharings: the C10 relations as
// lemmas OVER the per-party functional contracts (no code is re-verified here; these are the steps from
// "each party's function satisfies its postcondition" to "the joint outputs satisfy the property").
//
// A sharing is a sequence of Shares, one per party; party i's entry j is (MAC under j's key, key for j's bit).

pub open(crate) spec fn wf_sharing(s: Seq<Share>) -> bool {
    forall|i: int| 0 <= i < s.len() ==> (#[trigger] s[i]).1.0.len() == s.len()
}

/// C10: for each ordered pair (i, j): MAC held by i == key held by j XOR (bit of i AND global key of j)
pub open(crate) spec fn valid_sharing(s: Seq<Share>, d: Seq<Delta>) -> bool {
    &&& wf_sharing(s) && d.len() == s.len()
    &&& forall|i: int, j: int| 0 <= i < s.len() && 0 <= j < s.len() && i != j ==>
            mac_ok(#[trigger] s[i].1.0@[j].0, #[trigger] s[j].1.0@[i].1, s[i].0, d[j])
}

/// XOR of the bits of the first `upto` parties
pub open(crate) spec fn xor_bits(s: Seq<Share>, upto: int) -> bool
    decreases upto
{
    if upto <= 0 { false } else { xor_bits(s, upto - 1) ^ s[upto - 1].0 }
}

/// party-wise relation: c is the share-wise XOR of a and b (what `&Share ^ &Share` ensures at every party)
pub open(crate) spec fn sharing_is_xor(a: Seq<Share>, b: Seq<Share>, c: Seq<Share>) -> bool {
    &&& a.len() == b.len() && b.len() == c.len()
    &&& forall|i: int| 0 <= i < c.len() ==> is_xor_share(a[i], b[i], #[trigger] c[i])
}

pub(crate) proof fn lemma_xor_bits_xor(a: Seq<Share>, b: Seq<Share>, c: Seq<Share>, upto: int)
    requires a.len() == b.len(), b.len() == c.len(), 0 <= upto <= c.len(),
        forall|i: int| 0 <= i < c.len() ==> (#[trigger] c[i]).0 == (a[i].0 ^ b[i].0),
    ensures xor_bits(c, upto) == (xor_bits(a, upto) ^ xor_bits(b, upto)),
    decreases upto
{
    if upto > 0 { lemma_xor_bits_xor(a, b, c, upto - 1); }
}

/// C10: XOR / NOT-free wires keep valid sharings: if every party XORs its two shares, the result is a valid
/// sharing of the XOR of the two secrets.
pub(crate) proof fn lemma_xor_valid(a: Seq<Share>, b: Seq<Share>, c: Seq<Share>, d: Seq<Delta>)
    requires valid_sharing(a, d), valid_sharing(b, d), sharing_is_xor(a, b, c),
    ensures
        valid_sharing(c, d), /*@C01+C10.lemma.xor_of_valid_sharings_is_valid*/
        xor_bits(c, c.len() as int) == (xor_bits(a, a.len() as int) ^ xor_bits(b, b.len() as int)), /*@C01+C10.lemma.xor_shares_the_xor*/
{
    assert forall|i: int| 0 <= i < c.len() implies (#[trigger] c[i]).1.0.len() == c.len() by {
        assert(is_xor_share(a[i], b[i], c[i]));
        assert(a[i].1.0.len() == a.len() && b[i].1.0.len() == b.len());
    }
    assert forall|i: int, j: int| 0 <= i < c.len() && 0 <= j < c.len() && i != j implies
        mac_ok(#[trigger] c[i].1.0@[j].0, #[trigger] c[j].1.0@[i].1, c[i].0, d[j]) by {
        assert(is_xor_share(a[i], b[i], c[i]));
        assert(is_xor_share(a[j], b[j], c[j]));
        assert(a[i].1.0.len() == a.len() && b[i].1.0.len() == b.len() && a[j].1.0.len() == a.len() && b[j].1.0.len() == b.len());
        assert(mac_ok(a[i].1.0@[j].0, a[j].1.0@[i].1, a[i].0, d[j]));
        assert(mac_ok(b[i].1.0@[j].0, b[j].1.0@[i].1, b[i].0, d[j]));
        lemma_mac_xor(a[i].1.0@[j].0.0, a[j].1.0@[i].1.0, a[i].0, b[i].1.0@[j].0.0, b[j].1.0@[i].1.0, b[i].0, d[j].0);
    }
    assert forall|i: int| 0 <= i < c.len() implies (#[trigger] c[i]).0 == (a[i].0 ^ b[i].0) by { assert(is_xor_share(a[i], b[i], c[i])); }
    lemma_xor_bits_xor(a, b, c, c.len() as int);
}

/// a public bit times a sharing: XOR of (dd && x_i) over the parties is dd && (XOR of x_i)
pub(crate) proof fn lemma_xor_bits_scale(x: Seq<Share>, c: Seq<bool>, dd: bool, upto: int)
    requires 0 <= upto <= x.len(), c.len() == x.len(), forall|i: int| 0 <= i < x.len() ==> #[trigger] c[i] == (dd && x[i].0),
    ensures xor_bools(c, upto) == (dd && xor_bits(x, upto)),
    decreases upto
{
    if upto > 0 { lemma_xor_bits_scale(x, c, dd, upto - 1); }
}
pub open(crate) spec fn xor_bools(c: Seq<bool>, upto: int) -> bool
    decreases upto
{
    if upto <= 0 { false } else { xor_bools(c, upto - 1) ^ c[upto - 1] }
}

/// the bit algebra of Pi_aAND step (b) / of `combine_two_leaky_ands`: with x = x1^x2, y = y1, z = z1^z2^d*x2 and
/// d = y1^y2 (all as XORs over the parties), two AND triples combine into an AND triple
pub(crate) proof fn lemma_combine_and_relation(x1: bool, y1: bool, z1: bool, x2: bool, y2: bool, z2: bool)
    requires z1 == (x1 && y1), z2 == (x2 && y2),
    ensures (z1 ^ z2 ^ ((y1 ^ y2) && x2)) == ((x1 ^ x2) && y1), /*@C10.lemma.combined_triple_is_an_and_triple*/
{
}

/// the bit algebra of `beaver_aand`: with d = a^alpha, e = b^beta (opened), c = a && b:
/// c ^ (d && beta) ^ (e && a) == alpha && beta
pub(crate) proof fn lemma_beaver_and_relation(a: bool, b: bool, c: bool, alpha: bool, beta: bool)
    requires c == (a && b),
    ensures (c ^ ((a ^ alpha) && beta) ^ ((b ^ beta) && a)) == (alpha && beta), /*@C10.lemma.beaver_output_is_alpha_and_beta*/
{
}

/// a MAC relation is preserved when a PUBLIC bit selects whether another valid (mac,key,bit) is XORed in
pub(crate) proof fn lemma_mac_select(m: u128, k: u128, b: bool, m2: u128, k2: u128, b2: bool, sel: bool, d: u128)
    requires m == k ^ dmask(b, d), m2 == k2 ^ dmask(b2, d),
    ensures (m ^ dmask(sel, m2)) == (k ^ dmask(sel, k2)) ^ dmask(b ^ (sel && b2), d), /*@C10.lemma.public_select_keeps_mac_relation*/
{
    if sel {
        lemma_mac_xor(m, k, b, m2, k2, b2, d);
    } else {
        lemma_xor_zero(m);
        lemma_xor_zero(k);
    }
}
} // verus!
