verus! {
// ---------------------------------------------------------------- crate::block::Block (wraps wide::u8x16): opaque.
// `blk(b)` is the block read as a native-endian u128, i.e. what `u128::from(b)` returns. The facts below are
// assume_specifications for Verus (block.rs is SIMD / bytemuck code outside its dialect); each of them is DECIDED on
// the real impls, for all 2^128 values, by the complete Kani harnesses of kani/harness/block_facts.toml
// (xor_is_u128_xor, from_u128_roundtrip, default_is_zero, from_bytes_is_ne_u128, eq_is_value_eq) and otblock.toml.
// What stays trusted is the correspondence between the two statements of the same fact.
#[verifier::external_type_specification]
#[verifier::external_body]
pub struct ExBlock(crate::block::Block);

pub uninterp spec fn blk(b: crate::block::Block) -> u128;
/// native-endian u128 of 16 bytes
pub uninterp spec fn ne_u128_spec(b: Seq<u8>) -> u128;

pub uninterp spec fn blk_xor(a: crate::block::Block, b: crate::block::Block) -> crate::block::Block;
impl BitXorSpecImpl<crate::block::Block> for crate::block::Block {
    open(crate) spec fn obeys_bitxor_spec() -> bool { false }
    open(crate) spec fn bitxor_req(self, rhs: crate::block::Block) -> bool { true }
    open(crate) spec fn bitxor_spec(self, rhs: crate::block::Block) -> crate::block::Block { blk_xor(self, rhs) }
}
pub assume_specification [<crate::block::Block as core::ops::BitXor>::bitxor](a: crate::block::Block, b: crate::block::Block) -> (r: crate::block::Block)
    ensures blk(r) == blk(a) ^ blk(b);
pub assume_specification [<crate::block::Block as core::convert::From<u128>>::from](x: u128) -> (r: crate::block::Block)
    ensures blk(r) == x;
pub assume_specification [<crate::block::Block as core::convert::From<[u8; 16]>>::from](x: [u8; 16]) -> (r: crate::block::Block)
    ensures blk(r) == ne_u128_spec(x@);
pub assume_specification [<crate::block::Block as core::default::Default>::default]() -> (r: crate::block::Block)
    ensures blk(r) == 0;
pub assume_specification [<crate::block::Block as core::clone::Clone>::clone](a: &crate::block::Block) -> (r: crate::block::Block)
    ensures r == *a;

/// carry-less 128x128 multiplication (low, high) — uninterpreted here; its definition is the subject of C20
pub uninterp spec fn clmul_spec(a: u128, b: u128) -> (u128, u128);
pub assume_specification [crate::block::Block::clmul](a: &crate::block::Block, b: &crate::block::Block) -> (r: (crate::block::Block, crate::block::Block))
    ensures (blk(r.0), blk(r.1)) == clmul_spec(blk(*a), blk(*b));

// ---------------------------------------------------------------- fixed-key AES hash (opaque); TCCR hash uninterpreted
#[verifier::external_type_specification]
#[verifier::external_body]
pub struct ExAesHash(crate::crypto::AesHash);
/// pi(pi(x) ^ tweak) ^ pi(x) under the hash's key — uninterpreted (C20 covers its definition, not decided there)
pub uninterp spec fn tccr_spec(h: crate::crypto::AesHash, tweak: u128, x: u128) -> u128;
pub assume_specification [crate::crypto::AesHash::tccr_hash_block](h: &crate::crypto::AesHash, tweak: crate::block::Block, x: crate::block::Block) -> (r: crate::block::Block)
    ensures blk(r) == tccr_spec(*h, blk(tweak), blk(x));

/// C11, correlated OT, one index: the sender holds q and s, the receiver t and its choice bit b with
/// q == t ^ b*s (what the ALSZ matrix + transpose deliver; assumed). x0 = H(j,q), x1 = x0 ^ delta,
/// y = H(j, q^s) ^ x1 is sent, the receiver outputs b*y ^ H(j,t).  Then: output == x0 ^ b*delta.
pub proof fn lemma_cot_index(h: crate::crypto::AesHash, j: u128, q: u128, t: u128, s: u128, b: bool, delta: u128, x0: u128, x1: u128, y: u128, out: u128)
    requires
        q == t ^ dmask(b, s),
        x0 == tccr_spec(h, j, q), x1 == x0 ^ delta,
        y == tccr_spec(h, j, q ^ s) ^ x1,
        out == dmask(b, y) ^ tccr_spec(h, j, t),
    ensures out == x0 ^ dmask(b, delta), /*@C11.lemma.correlated_ot_receiver_gets_x0_xor_b_delta*/
{
    let hs = tccr_spec(h, j, q ^ s);
    if b {
        assert(q ^ s == t) by(bit_vector) requires q == t ^ s;
        assert((hs ^ (x0 ^ delta)) ^ hs == x0 ^ delta) by(bit_vector);
    } else {
        assert(t ^ 0 == t) by(bit_vector);
        assert(0u128 ^ x0 == x0 ^ 0) by(bit_vector);
    }
}

/// C11, chosen-message OT, one index: y0 = H(j,q) ^ m0, y1 = H(j,q^s) ^ m1, receiver outputs y_b ^ H(j,t) == m_b
pub proof fn lemma_ot_index(h: crate::crypto::AesHash, j: u128, q: u128, t: u128, s: u128, b: bool, m0: u128, m1: u128, y0: u128, y1: u128, out: u128)
    requires
        q == t ^ dmask(b, s),
        y0 == tccr_spec(h, j, q) ^ m0, y1 == tccr_spec(h, j, q ^ s) ^ m1,
        out == (if b { y1 } else { y0 }) ^ tccr_spec(h, j, t),
    ensures out == (if b { m1 } else { m0 }), /*@C11.lemma.ot_receiver_gets_chosen_message*/
{
    let h0 = tccr_spec(h, j, q);
    let hs = tccr_spec(h, j, q ^ s);
    if b {
        assert(q ^ s == t) by(bit_vector) requires q == t ^ s;
        assert((hs ^ m1) ^ hs == m1) by(bit_vector);
    } else {
        assert(t ^ 0 == t) by(bit_vector);
        assert((h0 ^ m0) ^ h0 == m0) by(bit_vector);
    }
}
} // verus!
