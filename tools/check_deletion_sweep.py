#!/usr/bin/env python3
"""Check-deletion sweep: for every `return Err(..);` statement in the files under contract, build a mutant in which
that statement can no longer execute (`if false { return Err(..); }`), splice ALL contract units into the mutant
and run Verus once. A mutant on which every obligation still verifies is a check whose removal no contract notices
(printed as MISSED, with file:line); mutants that no longer compile / fit the dialect are listed as INVALID.
Usage: tools/check_deletion_sweep.py [-j N] [file ...]      (never touches /repo; scratch copies under /var/tmp)
Writes sweeps/SWEEP*.txt."""
import os, re, sys, shutil, subprocess, tempfile, json, concurrent.futures

VERIF = os.path.dirname(os.path.dirname(os.path.abspath(__file__)))
REPO = "/repo"
FILES = ["src/mpc/protocol.rs", "src/mpc/faand.rs", "src/ot_core/kos.rs", "src/channel.rs"]


def sites(text, ops):
    out = []
    if "del" in ops:
        for m in re.finditer(r"return Err\(", text):
            i = m.end(); depth = 1
            while i < len(text) and depth:
                c = text[i]
                depth += (c == "(") - (c == ")")
                i += 1
            j = i
            while j < len(text) and text[j] in " \t":
                j += 1
            has_semi = j < len(text) and text[j] == ";"
            end = j + 1 if has_semi else i
            stmt = text[m.start():end]
            out.append((m.start(), end, "if false { " + (stmt if has_semi else stmt + ";") + " }", "del"))
    if "filter" in ops:   # a loop over "every other party" that skips some of them
        for m in re.finditer(r"\.filter\(\|&?(\w+)\| \*?\1 != (\w+)\)", text):
            out.append((m.start(), m.end(), ".filter(|%s| *%s > %s)" % (m.group(1), m.group(1), m.group(2)), "filter"))
    if "assign" in ops:   # accumulation replaced by assignment
        for m in re.finditer(r" \^= ", text):
            out.append((m.start(), m.end(), " = ", "assign"))
    if "and" in ops:      # a disjunction of failure conditions weakened to a conjunction
        for m in re.finditer(r"\n\s*if [^\n{]*\|\|[^\n{]*\{\n\s*return Err", text):
            k = text.index("||", m.start())
            out.append((k, k + 2, "&&", "and"))
    if "eval0" in ops:    # "the evaluator is party 0": every use of p_eval as a value replaced by 0
        for m in re.finditer(r"(?<![\w.])p_eval(?![\w])", text):
            ls = text.rfind("\n", 0, m.start()) + 1
            line_txt = text[ls:text.find("\n", m.end())]
            # skip bindings / field shorthand (`p_eval,` inside a destructuring pattern or struct literal) and comments
            if re.match(r"\s*p_eval,\s*$", line_txt) or line_txt.strip().startswith("//") or "p_eval:" in line_txt:
                continue
            out.append((m.start(), m.end(), "0", "eval0"))
    if "nodelta" in ops:  # a `^ delta` / `^ delta.0` term dropped
        for m in re.finditer(r" \^ delta(\.0)?(?![\w])", text):
            out.append((m.start(), m.end(), "", "nodelta"))
    if "cmp" in ops:      # off-by-one in a comparison that guards a flush / bound
        for m in re.finditer(r" >= ", text):
            out.append((m.start(), m.end(), " > ", "cmp"))
    return out


def fn_of(text, pos):
    best = None
    for m in re.finditer(r"\bfn\s+(\w+)", text[:pos]):
        best = m.group(1)
    return best


def run_one(job):
    f, k, (s, e, repl, kind), text = job
    line = text[:s].count("\n") + 1
    fn = fn_of(text, s)
    # skip test modules
    tm = text.find("#[cfg(test)]")
    if tm != -1 and s > tm:
        return None
    scratch = tempfile.mkdtemp(prefix="pv-sweep-", dir="/var/tmp")
    try:
        dst = os.path.join(scratch, "repo")
        shutil.copytree(REPO, dst, ignore=shutil.ignore_patterns("target", ".git"))
        stmt = text[s:e]
        mutated = text[:s] + repl + text[e:]
        open(os.path.join(dst, f), "w").write(mutated)
        ann = os.path.join(scratch, "ann")
        env = dict(os.environ, PV_REPO=dst)
        r = subprocess.run([os.path.join(VERIF, "pv"), "annotate", "--out", ann, "--verify"], cwd=VERIF, env=env,
                           stdout=subprocess.PIPE, stderr=subprocess.STDOUT, text=True, timeout=1800)
        out = r.stdout
        fails = re.findall(r"^---- (\S+) \[(.*?)\] (.*)$", out, flags=re.M)
        js = re.search(r"^\{\"encountered-error.*$", out, flags=re.M)
        ok = bool(js and '"success": true' in js.group(0))
        if "FAILED: pvx" in out or (js and '"encountered-vir-error": true' in js.group(0)) or any("error[E" in l for l in out.splitlines()) or (js and '"verified": 0' in js.group(0) and not ok):
            verdict = "INVALID"
        elif ok and not fails:
            verdict = "MISSED"
        elif fails:
            labelled = [x for x in fails if x[1].strip()]
            verdict = "CAUGHT" if labelled else "CAUGHT-UNLABELLED"
        else:
            verdict = "INVALID"
        first = ""
        if fails:
            lab = [x for x in fails if x[1].strip()]
            x = (lab or fails)[0]
            first = "%s [%s] %s" % (x[0], x[1][:80], x[2][:60])
        ctx_line = text[text.rfind("\n", 0, s) + 1:text.find("\n", e)].strip()
        return (f, line, fn, verdict, (kind + ": " + ctx_line.replace("\n", " "))[:90], first)
    finally:
        shutil.rmtree(scratch, ignore_errors=True)


def main():
    args = sys.argv[1:]
    j = 2
    if args[:1] == ["-j"]:
        j = int(args[1]); args = args[2:]
    ops = ["del"]
    if args[:1] == ["--ops"]:
        ops = args[1].split(","); args = args[2:]
    out_name = "SWEEP.txt" if ops == ["del"] else "SWEEP-%s.txt" % "-".join(ops)
    files = args or FILES
    jobs = []
    for f in files:
        text = open(os.path.join(REPO, f)).read()
        for k, st in enumerate(sites(text, ops)):
            jobs.append((f, k, st, text))
    res = []
    with concurrent.futures.ThreadPoolExecutor(max_workers=j) as ex:
        for r in ex.map(run_one, jobs):
            if r:
                res.append(r)
                print("%-12s %s:%d %s  | %s | %s" % (r[3], r[0], r[1], r[2], r[4], r[5]), flush=True)
    with open(os.path.join(VERIF, "sweeps", out_name), "w") as fh:
        for r in res:
            fh.write("%-17s %s:%d %s | %s | %s\n" % (r[3], r[0], r[1], r[2], r[4], r[5]))
        from collections import Counter
        c = Counter(r[3] for r in res)
        fh.write("# totals: %s\n" % dict(c))
    print(dict(__import__("collections").Counter(r[3] for r in res)))


if __name__ == "__main__":
    main()
