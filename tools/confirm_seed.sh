#!/bin/bash
# usage: tools/confirm_seed.sh <seed id> <dir with patch.diff demo.rs meta.json> <property>
# Confirms in a scratch worktree of /repo HEAD: demo passes without the patch, fails with it, and the
# existing lib tests + a subset of tests/protocol.rs still pass with the patch. Writes /verif/seeded/<id>/.
id=$1; src=$2; prop=$3
out=/verif/seeded/$id; mkdir -p $out
wt=/root/scratch/confirm-$id
git -C /repo worktree add -q --detach $wt HEAD || exit 3
export CARGO_TARGET_DIR=/root/scratch/wt-target
cd $wt
demo_is_unit=0
if grep -q 'mod seed_demo' $src/demo.rs 2>/dev/null || grep -q 'src/seed_demo.rs' $src/demo.rs 2>/dev/null || grep -q 'crate::' $src/demo.rs 2>/dev/null; then demo_is_unit=1; fi
place_demo() {
  if [ $demo_is_unit = 1 ]; then cp $src/demo.rs src/seed_demo.rs; grep -q 'mod seed_demo' src/lib.rs || echo '#[cfg(test)] mod seed_demo;' >> src/lib.rs; else cp $src/demo.rs tests/seed_demo.rs; fi
}
run_demo() {
  if [ $demo_is_unit = 1 ]; then timeout 1500 cargo test --offline -p polytune --lib seed_demo 2>&1 | grep -E '^test result' | tail -1; else timeout 1500 cargo test --offline -p polytune --test seed_demo 2>&1 | grep -E '^test result' | tail -1; fi
}
place_demo
r_without=$(run_demo)
if git apply --check $src/patch.diff 2>/dev/null; then git apply $src/patch.diff; else git apply --3way $src/patch.diff >/dev/null 2>&1; fi
git diff -- src ':!src/seed_demo.rs' ':!src/lib.rs' > $out/patch.diff
[ -s $out/patch.diff ] || git diff -- src > $out/patch.diff
r_with=$(run_demo)
# existing tests with the patch (demo removed)
rm -f tests/seed_demo.rs src/seed_demo.rs; git checkout -q -- src/lib.rs 2>/dev/null
if [ $demo_is_unit = 1 ]; then git apply $out/patch.diff 2>/dev/null; fi
r_lib=$(timeout 1500 cargo test --offline -p polytune --lib 2>&1 | grep -E '^test result' | tail -1)
r_proto=$(timeout 1500 cargo test --offline -p polytune --test protocol -- eval_xor_circuits_2pc eval_and_circuits_2pc eval_not_circuits_2pc 2>&1 | grep -E '^test result' | tail -1)
cp $src/demo.rs $out/demo.rs
python3 - "$id" "$prop" "$src" "$r_without" "$r_with" "$r_lib" "$r_proto" <<'PY'
import json,sys
id,prop,src,rw,rp,rl,rpr=sys.argv[1:8]
try: m=json.load(open(src+'/meta.json'))
except Exception: m={}
meta={"id":id,"property":prop,"summary":m.get("summary",""),"needs_to_manifest":m.get("needs_to_manifest",""),
 "origin":"written by an independent sub-agent that saw only the property text and a scratch worktree",
 "confirmed_by_me":{"demo_without_patch":rw,"demo_with_patch":rp,"lib_tests_with_patch":rl,"protocol_subset_with_patch":rpr,
   "commands":["cargo test --offline -p polytune --test seed_demo (or --lib seed_demo)","cargo test --offline -p polytune --lib","cargo test --offline -p polytune --test protocol -- eval_xor_circuits_2pc eval_and_circuits_2pc eval_not_circuits_2pc"],
   "base_commit":"/repo HEAD at confirmation time"}}
json.dump(meta,open('/verif/seeded/%s/meta.json'%id,'w'),indent=1)
print(id,"without:",rw,"| with:",rp,"| lib:",rl,"| proto:",rpr)
PY
cd /; git -C /repo worktree remove --force $wt
