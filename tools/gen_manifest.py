#!/usr/bin/env python3
"""Generates /verif/MANIFEST.json from tools/manifest_table.json (kept by hand)."""
import json, os
V = os.path.dirname(os.path.dirname(os.path.abspath(__file__)))
T = json.load(open(os.path.join(V, "tools", "manifest_table.json")))
base = json.load(open("/root/.vp/BASELINE.json"))
checks = []
for c in T["claimed"]:
    pid = c["id"]
    checks.append({
        "property_id": pid,
        "quick_cmd": "./pv check %s --tier quick" % pid,
        "thorough_cmd": "./pv check %s --tier thorough" % pid,
        "evidence_file": "evidence/%s.json" % pid,
        "replay_cmd_template": "./pv replay {path}",
        "engine": "pv",
        "level_claimed": {"category": "proof", "text": c["text"], "design_ref": c.get("design_ref", "DESIGN.md §5 " + pid)},
        "level_note": c["note"],
        "technique": c.get("technique", "contract-based deductive verification: Verus contracts spliced into the real functions (overlay), z3"),
    })
props = [json.loads(l)["id"] for l in open(os.path.join(V, "properties.jsonl")) if l.strip()]
na = list(T["not_applicable"])
have = {c["id"] for c in T["claimed"]} | {n["property_id"] for n in na}
for pid in props:
    if pid not in have:
        na.append({"property_id": pid, "reason": "not claimed at this commit: carriers still under construction (see DESIGN.md §0); no check is registered, nothing is reported for it"})
T["not_applicable"] = na
m = {
    "version": 1,
    "setup_cmd": "./pv setup",
    "hooks": {
        "guard": "none (no source hooks: contracts are spliced into a scratch copy of /repo/src at check time; cfgs `verus_keep_ghost` / `kani` exist only there)",
        "enable": "n/a — ./pv check copies /repo/src and annotates the copy",
        "baseline_off_cmd": base["cmd"],
        "source_commits": [],
        "add_only": True,
    },
    "engines": [
        {"name": "pv", "path": "pv", "serves_properties": [c["id"] for c in T["claimed"]],
         "kind_free_text": "driver: overlay (overlay/pvx, syn-based span edits) splices contracts/*.toml + specs/*.rs into the current /repo/src, runs Verus (and Kani for synchronous bit-level kernels), maps failed obligations to clause ids, writes evidence"},
    ],
    "checks": checks,
    "not_applicable": T["not_applicable"],
    "notes": T.get("notes", ""),
}
json.dump(m, open(os.path.join(V, "MANIFEST.json"), "w"), indent=1)
print("MANIFEST.json: %d checks, %d not applicable" % (len(checks), len(T["not_applicable"])))
