#!/bin/bash
# usage: tools/seed_matrix.sh [-j N] [seed-id ...]
# Regression over /verif/seeded: applies every stored change to a scratch worktree of /repo HEAD (never /repo
# itself), runs the check of the seed's property against it, and records the verdict in seeded/<id>/meta.json
# under "verdict_of_my_checks" (property-breaking seeds should give VIOLATION; benign ones must give OK).
# Prints one line per seed and a summary table to seeded/MATRIX.txt.
cd /verif
J=3
if [ "$1" = "-j" ]; then J=$2; shift 2; fi
ids=("$@")
if [ ${#ids[@]} -eq 0 ]; then ids=($(cd seeded && ls -d */ | tr -d /)); fi
one() {
  id=$1
  d=/verif/seeded/$id
  [ -f $d/patch.diff ] || { echo "$id: no patch.diff"; return; }
  prop=$(python3 -c "import json,sys; m=json.load(open('$d/meta.json')); print(m.get('property') or m.get('check') or '')")
  [ -n "$prop" ] || { echo "$id: no property in meta.json"; return; }
  out=$(/verif/tools/try_seed.sh $d/patch.diff $prop 2>&1)
  verdict=$(echo "$out" | grep -oE '(OK|VIOLATION|UNDECIDED|KNOWN-FINDING|PATCH DOES NOT APPLY)' | head -1)
  detail=$(echo "$out" | grep -E 'VIOLATION|UNDECIDED|OK property' | head -1 | cut -c1-300)
  python3 - "$d/meta.json" "$verdict" "$detail" <<'EOF'
import json, sys, subprocess
p, v, det = sys.argv[1:4]
m = json.load(open(p))
head = subprocess.run(["git", "-C", "/repo", "rev-parse", "--short", "HEAD"], capture_output=True, text=True).stdout.strip()
m["verdict_of_my_checks"] = {"verdict": v, "line": det, "repo_head": head, "by": "tools/seed_matrix.sh"}
json.dump(m, open(p, "w"), indent=1)
EOF
  echo "$id $prop ${verdict:-NONE}"
}
export -f one
printf '%s\n' "${ids[@]}" | xargs -P $J -I{} bash -c 'one {}' | sort
# the table is always regenerated from every seed's meta.json
python3 - <<'EOF2' > /verif/seeded/MATRIX.txt
import json, glob, os
for d in sorted(glob.glob('/verif/seeded/*/meta.json')):
    m = json.load(open(d)); v = m.get('verdict_of_my_checks') or {}
    print(os.path.basename(os.path.dirname(d)), m.get('property'), v.get('verdict') if isinstance(v, dict) else v)
EOF2
