#!/usr/bin/env python3
"""Triage of the sweep's MISSED mutants: does the repository's own test suite kill them? (A mutant the tests kill is
not a 'realistic change that passes the existing tests'.) Usage: tools/triage_missed.py <sweep log> [-j N]"""
import os, re, sys, shutil, subprocess, tempfile, importlib.util, concurrent.futures
VERIF = os.path.dirname(os.path.dirname(os.path.abspath(__file__)))
spec = importlib.util.spec_from_file_location("sw", os.path.join(VERIF, "tools", "check_deletion_sweep.py")); sw = importlib.util.module_from_spec(spec); spec.loader.exec_module(sw)
TESTS = ["eval_xor_circuits_2pc", "eval_and_circuits_2pc", "eval_not_circuits_2pc", "eval_xor_circuits_3pc", "eval_and_circuits_3pc", "eval_not_circuits_3pc"]

def run(job):
    f, line, kind, _n = job
    text = open(os.path.join("/repo", f)).read()
    cand = [st for st in sw.sites(text, [kind]) if text[:st[0]].count("\n") + 1 == line]
    if not cand:
        return (f, line, kind, "site-not-found")
    s, e, repl, _ = cand[0]
    scratch = tempfile.mkdtemp(prefix="pv-triage-", dir="/var/tmp")
    try:
        dst = os.path.join(scratch, "repo")
        shutil.copytree("/repo", dst, ignore=shutil.ignore_patterns("target", ".git"))
        open(os.path.join(dst, f), "w").write(text[:s] + repl + text[e:])
        env = dict(os.environ, CARGO_NET_OFFLINE="true", CARGO_TARGET_DIR="/root/scratch/triage-target-%d" % (job[3] % 2))
        r1 = subprocess.run(["cargo", "test", "--offline", "-p", "polytune", "--lib"], cwd=dst, env=env, stdout=subprocess.PIPE, stderr=subprocess.STDOUT, text=True, timeout=2400)
        ok1 = "test result: ok" in r1.stdout and "FAILED" not in r1.stdout
        if not ok1:
            return (f, line, kind, "KILLED-BY-TESTS (lib)")
        r2 = subprocess.run(["cargo", "test", "--offline", "-p", "polytune", "--test", "protocol", "--"] + TESTS, cwd=dst, env=env, stdout=subprocess.PIPE, stderr=subprocess.STDOUT, text=True, timeout=2400)
        ok2 = "test result: ok" in r2.stdout and "FAILED" not in r2.stdout
        return (f, line, kind, "SURVIVES-TESTS" if ok2 else "KILLED-BY-TESTS (protocol)")
    except subprocess.TimeoutExpired:
        return (f, line, kind, "KILLED-BY-TESTS (timeout/hang)")
    finally:
        shutil.rmtree(scratch, ignore_errors=True)

def main():
    log = sys.argv[1]
    j = int(sys.argv[3]) if len(sys.argv) > 3 and sys.argv[2] == "-j" else 2
    jobs = []
    for l in open(log):
        m = re.match(r"MISSED\s+(\S+):(\d+) \S+\s+\| (\w+):", l)
        if m:
            jobs.append((m.group(1), int(m.group(2)), m.group(3), len(jobs)))
    with concurrent.futures.ThreadPoolExecutor(max_workers=j) as ex:
        for r in ex.map(run, jobs):
            print("%-32s %s:%d %s" % (r[3], r[0], r[1], r[2]), flush=True)

if __name__ == "__main__":
    main()
