#!/bin/bash
# usage: tools/try_seed.sh <patch.diff> <prop> [<prop>...]
# applies the patch to a scratch worktree of /repo HEAD (never to /repo itself), runs the checks against it
patch=$1; shift
wt=/root/scratch/seedwt-$$
git -C /repo worktree add -q --detach $wt HEAD || exit 3
cd $wt
if ! git apply --check "$patch" 2>/dev/null; then
  if ! git apply --3way "$patch" >/dev/null 2>&1; then echo "PATCH DOES NOT APPLY: $patch"; cd /; git -C /repo worktree remove --force $wt; exit 4; fi
else
  git apply "$patch"
fi
cd /verif
for p in "$@"; do
  out=$(PV_REPO=$wt ./pv check $p 2>&1 | grep -E '^(OK|VIOLATION|UNDECIDED|KNOWN)|obligation|lost anchor' | head -8)
  echo "--- $p: $out"
done
git -C /repo worktree remove --force $wt
